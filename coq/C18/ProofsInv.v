(* C18 proofs, part 3: invariants over all action sequences (all interleavings). *)
From Coq Require Import List NArith ZArith Bool Lia.
From V Require Import C18.Model C18.ProofsArith C18.ProofsMachine.
Import ListNotations.
Open Scope Z_scope.

Definition holds (p : pc) : bool := match p with PLocked _ | PCsr _ _ => true | _ => false end.
Definition in_csr (p : pc) : bool := match p with PCsr _ _ => true | _ => false end.

(* generateMutex discipline: whoever is between Lock and Unlock is the registered holder; while a
   caller is inside CSRSign nothing is cached *)
Definition inv (s : st) : Prop :=
  (forall t, holds (pcs s t) = true -> lock s = Some t) /\
  (forall t, in_csr (pcs s t) = true -> workload s = None).

Lemma inv_init : inv init.
Proof. split; intros t; cbn; discriminate. Qed.

Lemma register_workload c s it :
  workload (register c s it) = match workload s with Some w => Some w | None => Some it end.
Proof. unfold register. destruct (workload s) eqn:E; [exact E | reflexivity]. Qed.
Lemma register_lock c s it : lock (register c s it) = lock s.
Proof. unfold register. destruct (workload s); reflexivity. Qed.
Lemma register_pcs c s it : pcs (register c s it) = pcs s.
Proof. unfold register. destruct (workload s); reflexivity. Qed.

Ltac simp_st := cbn [fst snd pcs lock workload queue cert_root bundle ncsr now
                     set_pc set_lock set_workload set_queue set_cert_root set_bundle set_ncsr set_now] in *.

(* the one holder *)
Lemma inv_holder_unique s t x : inv s -> holds (pcs s t) = true -> holds (pcs s x) = true -> x = t.
Proof. intros [L _] H1 H2. apply L in H1. apply L in H2. congruence. Qed.

Ltac fin W :=
  try solve [ eauto
            | let Hx := fresh "Hx" in intros Hx; pose proof (W _ Hx); congruence ].

Lemma step_inv c s a : inv s -> inv (fst (step c s a)).
Proof.
  intros I. pose proof I as [L W]. destruct a; unfold step.
  - (* ASpawn *)
    destruct (pcs s t) eqn:Hp; simp_st; try exact I.
    split; intros x; simp_st; unfold upd; destruct (N.eqb_spec x t) as [->|Hne]; cbn; try discriminate; fin W.
  - (* ACheck1 *)
    destruct (pcs s t) eqn:Hp; simp_st; try exact I.
    destruct (workload s) eqn:Hw; simp_st;
      (split; intros x; simp_st; unfold upd; destruct (N.eqb_spec x t) as [->|Hne]; cbn; try discriminate; fin W).
  - (* ALock *)
    destruct (pcs s t) eqn:Hp; simp_st; try exact I.
    destruct (lock s) eqn:Hl; simp_st; try exact I.
    split; intros x; simp_st; unfold upd; destruct (N.eqb_spec x t) as [->|Hne]; cbn; try discriminate; fin W.
    intros Hx. apply L in Hx. congruence.
  - (* ACheck2 *)
    destruct (pcs s t) eqn:Hp; simp_st; try exact I.
    assert (Ht : holds (pcs s t) = true) by (rewrite Hp; reflexivity).
    destruct (workload s) eqn:Hw; simp_st.
    + split; intros x; simp_st; unfold upd; destruct (N.eqb_spec x t) as [->|Hne]; cbn; try discriminate; fin W.
      intros Hx. exfalso. apply Hne. apply (inv_holder_unique s t x I Ht Hx).
    + split; intros x; simp_st; unfold upd; destruct (N.eqb_spec x t) as [->|Hne]; cbn; try discriminate; fin W.
  - (* AReply *)
    destruct (pcs s t) eqn:Hp; simp_st; try exact I.
    assert (Ht : holds (pcs s t) = true) by (rewrite Hp; reflexivity).
    assert (Hothers : forall x, x <> t -> holds (pcs s x) = false).
    { intros x Hne. destruct (holds (pcs s x)) eqn:Hx; [|reflexivity].
      exfalso. apply Hne. apply (inv_holder_unique s t x I Ht Hx). }
    destruct o as [expire bnd cr|].
    + set (it := {| i_key := kid; i_cert := kid; i_created := now s; i_expire := expire; i_root := roots_of bnd cr |}).
      assert (Hfin : forall s2, pcs s2 = pcs s ->
                inv (set_pc (set_lock s2 None) t PDone)).
      { intros s2 Hpc. split; intros x; simp_st; rewrite Hpc; unfold upd;
          destruct (N.eqb_spec x t) as [->|Hne]; cbn; try discriminate.
        - intros Hx. rewrite (Hothers x Hne) in Hx. discriminate.
        - intros Hx. assert (Hh : holds (pcs s x) = true) by (destruct (pcs s x); cbn in *; congruence).
          rewrite (Hothers x Hne) in Hh. discriminate. }
      destruct r.
      * destruct (list_N_eqb (cert_root (register c s it)) (i_root it)); simp_st;
          apply Hfin; simp_st; apply register_pcs.
      * simp_st. apply Hfin. apply register_pcs.
    + split; intros x; simp_st; unfold upd; destruct (N.eqb_spec x t) as [->|Hne]; cbn; try discriminate; fin W.
      intros Hx. rewrite (Hothers x Hne) in Hx. discriminate.
  - (* AFire *)
    destruct (nth_error (queue s) k) as [q|]; simp_st; try exact I.
    destruct (workload s) as [it|] eqn:Hw.
    + destruct (i_created it =? q_created q); simp_st; split; intros x; simp_st; fin W.
    + simp_st. split; intros x; simp_st; fin W.
  - (* ABundle *)
    destruct (list_N_eqb (bundle s) b); simp_st; try exact I.
    split; intros x; simp_st; fin W.
  - (* ATick *)
    simp_st. split; intros x; simp_st; fin W.
Qed.

Lemma run_inv c l : forall s, inv s -> inv (fst (run c s l)).
Proof.
  induction l as [|a l IH]; intros s I; cbn [run]; [exact I|].
  pose proof (step_inv c s a I) as I1. destruct (step c s a) as [s1 e1]. cbn [fst] in I1.
  specialize (IH s1 I1). destruct (run c s1 l) as [s2 e2]. exact IH.
Qed.

(* ---------------------------------------------------------------- pair consistency *)

Definition wl_pair (s : st) : Prop := forall it, workload s = Some it -> i_key it = i_cert it.
Definition ev_pair (e : ev) : Prop :=
  match e with ERet _ _ (Some r) => r_key r = r_cert r | _ => True end.

Lemma cached_ret_pair s r it : i_key it = i_cert it -> r_key (cached_ret s r it) = r_cert (cached_ret s r it).
Proof. intros H. destruct r; cbn; congruence. Qed.

Ltac wlp P :=
  let it' := fresh "it'" in let H' := fresh "H'" in
  intros it' H'; simp_st;
  first [ apply P; exact H' | discriminate
        | match goal with Hw : workload _ = _ |- _ => rewrite Hw in H'; first [discriminate | apply P; congruence] end ].

Lemma step_pair c s a : wl_pair s -> wl_pair (fst (step c s a)) /\ Forall ev_pair (snd (step c s a)).
Proof.
  intros P. destruct a; unfold step.
  - destruct (pcs s t); simp_st; split; auto.
  - destruct (pcs s t); simp_st; try (split; [exact P|constructor]).
    destruct (workload s) as [it|] eqn:Hw; simp_st.
    + split; [wlp P|].
      repeat constructor. cbn. apply cached_ret_pair. apply P. exact Hw.
    + split; [wlp P|constructor].
  - destruct (pcs s t); simp_st; try (split; [exact P|constructor]).
    destruct (lock s); simp_st; split; auto.
  - destruct (pcs s t); simp_st; try (split; [exact P|constructor]).
    destruct (workload s) as [it|] eqn:Hw; simp_st.
    + split; [wlp P|].
      repeat constructor. cbn. apply cached_ret_pair. apply P. exact Hw.
    + split; [wlp P|repeat constructor].
  - destruct (pcs s t) eqn:Hp; simp_st; try (split; [exact P|constructor]).
    destruct o as [expire bnd cr|]; simp_st.
    + set (it := {| i_key := kid; i_cert := kid; i_created := now s; i_expire := expire; i_root := roots_of bnd cr |}).
      assert (Hreg : wl_pair (register c s it)).
      { intros it' H'. rewrite register_workload in H'. destruct (workload s) as [w|] eqn:Hw.
        - apply P. congruence.
        - injection H' as <-. reflexivity. }
      destruct r.
      * destruct (list_N_eqb (cert_root (register c s it)) (i_root it)); simp_st;
          (split; [exact Hreg|repeat constructor]).
      * simp_st. split; [exact Hreg|repeat constructor].
    + split; [exact P|repeat constructor].
  - destruct (nth_error (queue s) k) as [q|]; simp_st; try (split; [exact P|constructor]).
    destruct (workload s) as [it|] eqn:Hw.
    + destruct (i_created it =? q_created q); simp_st.
      * split; [wlp P|repeat constructor].
      * split; [wlp P|constructor].
    + simp_st. split; [wlp P|constructor].
  - destruct (list_N_eqb (bundle s) b); simp_st; try (split; [exact P|constructor]).
    split; [wlp P|repeat constructor].
  - simp_st. split; [exact P|constructor].
Qed.

Lemma run_pair c l : forall s, wl_pair s -> Forall ev_pair (snd (run c s l)).
Proof.
  induction l as [|a l IH]; intros s P; cbn [run]; [constructor|].
  pose proof (step_pair c s a P) as [P1 E1]. destruct (step c s a) as [s1 e1]. cbn [fst snd] in *.
  specialize (IH s1 P1). destruct (run c s1 l) as [s2 e2]. cbn [snd] in *.
  apply Forall_app. split; assumption.
Qed.

Lemma pair_all c l t at_ r :
  In (ERet t at_ (Some r)) (snd (run c init l)) -> r_key r = r_cert r.
Proof.
  intros H. assert (P : wl_pair init) by (intros it H'; discriminate).
  pose proof (run_pair c l init P) as F. rewrite Forall_forall in F. apply (F _ H).
Qed.

(* ---------------------------------------------------------------- single flight *)

Definition ev_signed (e : ev) : bool := match e with ESigned _ => true | _ => false end.
Definition nsigned (l : list ev) : nat := List.length (filter ev_signed l).
Definition keyed1 (e : ev) : list (N * N) :=
  match e with
  | ERet _ _ (Some r) => match r_key r, r_cert r with Some k, Some c => [(k, c)] | _, _ => [] end
  | _ => []
  end.
Definition keyed (l : list ev) : list (N * N) := flat_map keyed1 l.
Definition kc (it : item) : N * N := (i_key it, i_cert it).
Definition no_inval (a : act) : bool := match a with AFire _ | ABundle _ => false | _ => true end.

Definition G (w0 : option item) (s : st) (e : list ev) : Prop :=
  match w0 with
  | Some it => workload s = Some it /\ nsigned e = 0%nat /\ Forall (eq (kc it)) (keyed e)
  | None => (workload s = None /\ nsigned e = 0%nat /\ keyed e = []) \/
            (exists it, workload s = Some it /\ nsigned e = 1%nat /\ Forall (eq (kc it)) (keyed e))
  end.

Lemma G_nil w s : workload s = w -> G w s [].
Proof. intros <-. unfold G. destruct (workload s); [repeat split; constructor | left; repeat split]. Qed.

Lemma nsigned_app a b : nsigned (a ++ b) = (nsigned a + nsigned b)%nat.
Proof. unfold nsigned. rewrite filter_app, app_length. reflexivity. Qed.
Lemma keyed_app a b : keyed (a ++ b) = keyed a ++ keyed b.
Proof. unfold keyed. apply flat_map_app. Qed.

Lemma G_trans w0 s1 e1 s2 e2 : G w0 s1 e1 -> G (workload s1) s2 e2 -> G w0 s2 (e1 ++ e2).
Proof.
  unfold G. intros H1 H2. destruct w0 as [it|].
  - destruct H1 as (W1 & N1 & F1). rewrite W1 in H2. destruct H2 as (W2 & N2 & F2).
    rewrite nsigned_app, keyed_app, N1, N2. repeat split; auto. apply Forall_app; auto.
  - destruct H1 as [(W1 & N1 & K1)|(it & W1 & N1 & F1)].
    + rewrite W1 in H2. rewrite nsigned_app, keyed_app, N1, K1. cbn [app plus]. exact H2.
    + rewrite W1 in H2. destruct H2 as (W2 & N2 & F2). right. exists it.
      rewrite nsigned_app, keyed_app, N1, N2. repeat split; auto. apply Forall_app; auto.
Qed.

Lemma keyed_cached s t r it :
  Forall (eq (kc it)) (keyed [ERet t (now s) (Some (cached_ret s r it))]).
Proof. destruct r; cbn; repeat constructor. Qed.

Lemma step_sf c s a : inv s -> no_inval a = true ->
  G (workload s) (fst (step c s a)) (snd (step c s a)).
Proof.
  intros [L W] Hn. destruct a; try discriminate; unfold step.
  - destruct (pcs s t); simp_st; apply G_nil; reflexivity.
  - destruct (pcs s t); simp_st; try (apply G_nil; reflexivity).
    destruct (workload s) as [it|] eqn:Hw; simp_st.
    + unfold G. repeat split; [exact Hw| apply keyed_cached].
    + apply G_nil. simp_st. exact Hw.
  - destruct (pcs s t); simp_st; try (apply G_nil; reflexivity).
    destruct (lock s); simp_st; apply G_nil; reflexivity.
  - destruct (pcs s t); simp_st; try (apply G_nil; reflexivity).
    destruct (workload s) as [it|] eqn:Hw; simp_st.
    + unfold G. repeat split; [exact Hw| apply keyed_cached].
    + unfold G. left. repeat split. exact Hw.
  - destruct (pcs s t) eqn:Hp; simp_st; try (apply G_nil; reflexivity).
    assert (Hw : workload s = None) by (apply (W t); rewrite Hp; reflexivity).
    rewrite Hw. destruct o as [expire bnd cr|]; simp_st.
    + set (it := {| i_key := kid; i_cert := kid; i_created := now s; i_expire := expire; i_root := roots_of bnd cr |}).
      assert (Hreg : workload (register c s it) = Some it) by (rewrite register_workload, Hw; reflexivity).
      unfold G. right. exists it.
      destruct r.
      * destruct (list_N_eqb (cert_root (register c s it)) (i_root it)); simp_st;
          (repeat split; [exact Hreg | cbn; repeat constructor]).
      * simp_st. repeat split; [exact Hreg | cbn; repeat constructor].
    + unfold G. left. repeat split. exact Hw.
  - simp_st. apply G_nil. reflexivity.
Qed.

Lemma run_sf c l : forall s, inv s -> forallb no_inval l = true ->
  G (workload s) (fst (run c s l)) (snd (run c s l)).
Proof.
  induction l as [|a l IH]; intros s I Hn; cbn [run].
  - apply G_nil. reflexivity.
  - cbn [forallb] in Hn. apply andb_true_iff in Hn. destruct Hn as [Ha Hl].
    pose proof (step_sf c s a I Ha) as G1. pose proof (step_inv c s a I) as I1.
    destruct (step c s a) as [s1 e1]. cbn [fst snd] in *.
    specialize (IH s1 I1 Hl). destruct (run c s1 l) as [s2 e2]. cbn [fst snd] in *.
    apply (G_trans _ _ _ _ _ G1 IH).
Qed.

Lemma single_flight c l1 l2 :
  forallb no_inval l2 = true ->
  let s1 := fst (run c init l1) in
  let e2 := snd (run c s1 l2) in
  (nsigned e2 <= 1)%nat /\ (forall p q, In p (keyed e2) -> In q (keyed e2) -> p = q).
Proof.
  intros Hn s1 e2.
  assert (I1 : inv s1) by (apply run_inv; apply inv_init).
  pose proof (run_sf c l2 s1 I1 Hn) as Gf. fold e2 in Gf. unfold G in Gf.
  destruct (workload s1) as [it|].
  - destruct Gf as (_ & N & F). split; [lia|]. rewrite Forall_forall in F.
    intros p q Hp Hq. rewrite <- (F p Hp), <- (F q Hq). reflexivity.
  - destruct Gf as [(_ & N & K)|(it & _ & N & F)].
    + split; [lia|]. rewrite K. intros p q [].
    + split; [lia|]. rewrite Forall_forall in F.
      intros p q Hp Hq. rewrite <- (F p Hp), <- (F q Hq). reflexivity.
Qed.

(* ---------------------------------------------------------------- exactly one live rotation task per cached certificate *)

Definition cnt (z : Z) (q : list qent) : nat := List.length (filter (fun e => q_created e =? z) q).
Definition live_one (s : st) : Prop := forall it, workload s = Some it -> cnt (i_created it) (queue s) = 1%nat.

(* the hypothesis the stale-task check relies on: a new certificate's CreatedTime is later than that of
   every task still queued (time.Now() is monotone; validated on every harness trace) *)
Definition fresh_at (s : st) (a : act) : Prop :=
  match a with
  | AReply t (CaOk _ _ _) =>
    match pcs s t with PCsr _ _ => Forall (fun q => q_created q < now s) (queue s) | _ => True end
  | _ => True
  end.
Fixpoint fresh_run (c : cfg) (s : st) (l : list act) : Prop :=
  match l with
  | [] => True
  | a :: l' => fresh_at s a /\ fresh_run c (fst (step c s a)) l'
  end.

Lemma cnt_remove_nth z : forall l k q, nth_error l k = Some q -> (q_created q =? z) = false ->
  cnt z (remove_nth k l) = cnt z l.
Proof.
  unfold cnt. induction l as [|x l IH]; intros k q H E; destruct k; cbn in *; try discriminate.
  - injection H as ->. rewrite E. reflexivity.
  - destruct (q_created x =? z); cbn; rewrite (IH k q H E); reflexivity.
Qed.

Lemma cnt_fresh z l : Forall (fun q => q_created q < z) l -> cnt z l = 0%nat.
Proof.
  unfold cnt. induction 1 as [|x l Hx _ IH]; cbn; [reflexivity|].
  assert (E : (q_created x =? z) = false) by (apply Z.eqb_neq; lia). rewrite E. exact IH.
Qed.

Lemma cnt_app z a b : cnt z (a ++ b) = (cnt z a + cnt z b)%nat.
Proof. unfold cnt. rewrite filter_app, app_length. reflexivity. Qed.

Lemma step_live c s a : live_one s -> fresh_at s a -> live_one (fst (step c s a)).
Proof.
  intros Lv Fr. destruct a; unfold step.
  - destruct (pcs s t); simp_st; exact Lv.
  - destruct (pcs s t); simp_st; try exact Lv. destruct (workload s) eqn:Hw; simp_st;
      intros it' H'; simp_st; apply Lv; congruence.
  - destruct (pcs s t); simp_st; try exact Lv. destruct (lock s); simp_st; exact Lv.
  - destruct (pcs s t); simp_st; try exact Lv. destruct (workload s) eqn:Hw; simp_st;
      intros it' H'; simp_st; apply Lv; congruence.
  - unfold fresh_at in Fr. destruct (pcs s t) eqn:Hp; simp_st; try exact Lv.
    destruct o as [expire bnd cr|]; simp_st; [|exact Lv].
    set (it := {| i_key := kid; i_cert := kid; i_created := now s; i_expire := expire; i_root := roots_of bnd cr |}).
    assert (Hreg : live_one (register c s it)).
    { unfold register. destruct (workload s) as [w|] eqn:Hw; [exact Lv|].
      intros it' H'. simp_st. injection H' as <-. cbn [i_created it].
      rewrite cnt_app, (cnt_fresh _ _ Fr). cbn. rewrite Z.eqb_refl. reflexivity. }
    destruct r.
    + destruct (list_N_eqb (cert_root (register c s it)) (i_root it)); simp_st; exact Hreg.
    + simp_st. exact Hreg.
  - destruct (nth_error (queue s) k) as [q|] eqn:Hk; simp_st; try exact Lv.
    destruct (workload s) as [it|] eqn:Hw.
    + destruct (i_created it =? q_created q) eqn:E; simp_st.
      * intros it' H'. discriminate.
      * intros it' H'. simp_st. rewrite Hw in H'. injection H' as <-.
        rewrite (cnt_remove_nth _ _ _ _ Hk); [apply Lv; exact Hw|].
        rewrite Z.eqb_sym. exact E.
    + simp_st. intros it' H'. simp_st. congruence.
  - destruct (list_N_eqb (bundle s) b); simp_st; try exact Lv. intros it' H'. discriminate.
  - simp_st. exact Lv.
Qed.

Lemma run_live c l : forall s, live_one s -> fresh_run c s l -> live_one (fst (run c s l)).
Proof.
  induction l as [|a l IH]; intros s Lv Fr; cbn [run]; [exact Lv|].
  cbn [fresh_run] in Fr. destruct Fr as [Fa Fl].
  pose proof (step_live c s a Lv Fa) as L1. destruct (step c s a) as [s1 e1]. cbn [fst] in *.
  specialize (IH s1 L1 Fl). destruct (run c s1 l) as [s2 e2]. exact IH.
Qed.

Lemma one_rotation c l : fresh_run c init l -> live_one (fst (run c init l)).
Proof. apply run_live. intros it H. discriminate. Qed.
