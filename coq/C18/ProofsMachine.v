(* C18 proofs, part 2: the cache state machine. *)
From Coq Require Import List NArith ZArith Bool Lia.
From V Require Import C18.Model C18.ProofsArith.
Import ListNotations.
Open Scope Z_scope.

Lemma upd_same f t v : upd f t v t = v.
Proof. unfold upd. rewrite N.eqb_refl. reflexivity. Qed.
Lemma upd_other f t v x : x <> t -> upd f t v x = f x.
Proof. unfold upd. intros H. apply N.eqb_neq in H. rewrite H. reflexivity. Qed.

Lemma list_N_eqb_eq a b : list_N_eqb a b = true <-> a = b.
Proof.
  revert b. induction a as [|x a IH]; destruct b as [|y b]; cbn; split; try congruence; try discriminate.
  - intros H. apply andb_true_iff in H. destruct H as [H1 H2]. apply N.eqb_eq in H1. apply IH in H2. congruence.
  - intros H. injection H as -> ->. rewrite N.eqb_refl. cbn. apply IH. reflexivity.
Qed.

Lemma run_app c s l1 l2 :
  run c s (l1 ++ l2) =
  let '(s1, e1) := run c s l1 in let '(s2, e2) := run c s1 l2 in (s2, e1 ++ e2).
Proof.
  revert s. induction l1 as [|a l1 IH]; intros s; cbn [run app].
  - destruct (run c s l2). reflexivity.
  - destruct (step c s a) as [s1 e1]. rewrite IH.
    destruct (run c s1 l1) as [s2 e2]. destruct (run c s2 l2) as [s3 e3].
    rewrite app_assoc. reflexivity.
Qed.

(* ---------------------------------------------------------------- failure is not sticky *)

Lemma reply_err_unchanged c s t r k :
  pcs s t = PCsr r k ->
  let '(s1, e) := step c s (AReply t CaErr) in
  workload s1 = workload s /\ cert_root s1 = cert_root s /\ bundle s1 = bundle s /\ queue s1 = queue s
  /\ lock s1 = None /\ pcs s1 t = PDone /\ e = [ERet t (now s) None].
Proof.
  intros H. unfold step. rewrite H. cbn. rewrite upd_same. repeat split; reflexivity.
Qed.

(* ... and the next caller signs again *)
Lemma reply_err_next_tries c s t r k t' r' :
  pcs s t = PCsr r k -> workload s = None -> pcs s t' = PIdle ->
  let s1 := fst (step c s (AReply t CaErr)) in
  snd (run c s1 [ASpawn t' r'; ACheck1 t'; ALock t'; ACheck2 t']) = [ECsr t' (ncsr s + 1)%N].
Proof.
  intros H Hw Hi.
  assert (Hne : t' <> t) by (intros ->; congruence).
  unfold step. rewrite H. cbn [fst].
  cbn [run step set_pc set_lock pcs workload lock ncsr now].
  rewrite (upd_other _ _ _ _ Hne), Hi.
  cbn [set_pc set_lock pcs workload lock ncsr now]. rewrite upd_same.
  cbn [set_pc set_lock pcs workload lock ncsr now]. rewrite Hw.
  cbn [set_pc set_lock pcs workload lock ncsr now]. rewrite upd_same.
  cbn [set_pc set_lock pcs workload lock ncsr now]. rewrite upd_same.
  cbn [set_pc set_lock set_ncsr pcs workload lock ncsr now]. rewrite Hw.
  cbn. reflexivity.
Qed.

(* ---------------------------------------------------------------- root change *)

Lemma reply_ok_workload_announces c s t k expire bnd cr :
  pcs s t = PCsr RWorkload k ->
  let roots := roots_of bnd cr in
  let '(s1, e) := step c s (AReply t (CaOk expire bnd cr)) in
  cert_root s1 = roots /\ (cert_root s <> roots -> In (ENotify RRoot (now s)) e).
Proof.
  intros H roots. unfold step. rewrite H.
  set (it := {| i_key := k; i_cert := k; i_created := now s; i_expire := expire; i_root := roots_of bnd cr |}).
  assert (Hcr : cert_root (register c s it) = cert_root s).
  { unfold register. destruct (workload s); reflexivity. }
  cbn [i_root it]. rewrite Hcr.
  destruct (list_N_eqb (cert_root s) (roots_of bnd cr)) eqn:E; cbn.
  - apply list_N_eqb_eq in E. rewrite Hcr. split; [assumption|]. intros Hn. contradiction.
  - split; [reflexivity|]. intros _. right. left. reflexivity.
Qed.

Lemma bundle_change_announces c s b :
  b <> bundle s ->
  let '(s1, e) := step c s (ABundle b) in
  bundle s1 = b /\ workload s1 = None /\ e = [ENotify RRoot (now s); ENotify RWorkload (now s)].
Proof.
  intros H. unfold step. destruct (list_N_eqb (bundle s) b) eqn:E.
  - apply list_N_eqb_eq in E. congruence.
  - cbn. repeat split; reflexivity.
Qed.

(* ---------------------------------------------------------------- registration schedules one task, before expiry *)

Lemma reply_ok_schedules c s t r k expire bnd cr :
  pcs s t = PCsr r k -> workload s = None -> now s <= expire ->
  let '(s1, e) := step c s (AReply t (CaOk expire bnd cr)) in
  exists q it, queue s1 = queue s ++ [q] /\ workload s1 = Some it
    /\ i_created it = now s /\ i_expire it = expire /\ i_key it = k /\ i_cert it = k
    /\ q_created q = now s /\ now s <= q_lo q /\ q_lo q <= q_hi q /\ q_hi q <= expire.
Proof.
  intros H Hw Hle. unfold step. rewrite H.
  set (it := {| i_key := k; i_cert := k; i_created := now s; i_expire := expire; i_root := roots_of bnd cr |}).
  pose proof (delay_lo_hi_bounds c (now s) expire (now s) Hle) as (B1 & B2 & B3).
  unfold register. rewrite Hw. cbn [i_created i_expire it].
  set (q := {| q_lo := now s + delay_lo c (now s) expire (now s);
               q_hi := now s + delay_hi c (now s) expire (now s); q_created := now s |}).
  destruct r; cbn.
  - destruct (list_N_eqb (cert_root s) (roots_of bnd cr)); cbn;
      exists q, it; cbn; repeat split; try reflexivity; lia.
  - exists q, it; cbn; repeat split; try reflexivity; lia.
Qed.

(* stale tasks are no-ops; the live task clears the cache and notifies *)
Lemma fire_stale c s k q :
  nth_error (queue s) k = Some q ->
  (forall it, workload s = Some it -> i_created it <> q_created q) ->
  let '(s1, e) := step c s (AFire k) in
  workload s1 = workload s /\ cert_root s1 = cert_root s /\ bundle s1 = bundle s /\ e = []
  /\ queue s1 = remove_nth k (queue s).
Proof.
  intros H Hs. unfold step. rewrite H. destruct (workload s) as [it|] eqn:Hw.
  - destruct (i_created it =? q_created q) eqn:E.
    + apply Z.eqb_eq in E. exfalso. apply (Hs it); [reflexivity|assumption].
    + cbn. rewrite Hw. repeat split; reflexivity.
  - cbn. rewrite Hw. repeat split; reflexivity.
Qed.

Lemma fire_live c s k q it :
  nth_error (queue s) k = Some q -> workload s = Some it -> i_created it = q_created q ->
  let '(s1, e) := step c s (AFire k) in
  workload s1 = None /\ e = [ENotify RWorkload (now s)] /\ queue s1 = remove_nth k (queue s).
Proof.
  intros H Hw E. unfold step. rewrite H, Hw. apply Z.eqb_eq in E. rewrite E. cbn. repeat split; reflexivity.
Qed.
