From V Require Import lib.Verdict C18.Model C18.Proofs.
