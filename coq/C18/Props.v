(* C18 property theorems only. *)
From Coq Require Import List NArith ZArith QArith Bool.
From V Require Import lib.Verdict C18.Model C18.Proofs.
Import ListNotations.
Open Scope Z_scope.

(* ---- rotateTime (exact Z/Q arithmetic) ---- *)

(* The renewal delay is never negative and never later than expiry, for every ratio/jitter sample
   (clamping included), every lifetime (also negative: an already expired certificate), provided the
   certificate was not created in the future or has a non-negative lifetime. *)
Theorem C18_delay_bounds : forall created expire now jgr,
  0 <= rotate_delay_q created expire now jgr /\
  (created <= now \/ created <= expire -> rotate_delay_q created expire now jgr <= Z.max 0 (expire - now)).
Proof. intros. split; [apply delay_q_nonneg | apply delay_q_upper]. Qed.
Print Assumptions C18_delay_bounds.

(* K8: "strictly before expiry whenever ratio > jitter" is false as stated: the grace period is truncated
   to whole nanoseconds. *)
Theorem C18_renew_strictly_before_refuted :
  exists created expire now ratio jitter,
    (jitter < ratio)%Q /\ (ratio <= 1)%Q /\ now < expire /\
    rotate_delay_q created expire now ratio = expire - now.
Proof. exists 0, 1, 0, (1 # 2)%Q, 0%Q. repeat split; try reflexivity; discriminate. Qed.
Print Assumptions C18_renew_strictly_before_refuted.

(* ... and true with the truncation precondition (ratio - jitter) * lifetime >= 1ns, for every jitter
   sample x in [-jitter, jitter]. *)
Theorem C18_renew_strictly_before_partial : forall created expire now ratio jitter x,
  (- jitter <= x)%Q -> (x <= jitter)%Q -> (jitter < ratio)%Q ->
  1 <= expire - created ->
  (1 <= (ratio - jitter) * inject_Z (expire - created))%Q ->
  now < expire ->
  rotate_delay_q created expire now (ratio + x) < expire - now.
Proof. exact delay_q_strict. Qed.
Print Assumptions C18_renew_strictly_before_partial.

Example C18_strict_hyps_satisfiable :
  rotate_delay_q 0 3600000000000 5 ((1 # 2) + (1 # 10)) < 3600000000000 - 5.
Proof. apply C18_renew_strictly_before_partial with (jitter := (1 # 10)%Q); try discriminate; reflexivity. Qed.

(* The float-faithful model (the one compared bit for bit with the real rotateTime, and used by the state
   machine): same bounds for certificates that are not expired at creation. *)
Theorem C18_delay_bounds_float : forall c created expire now, created <= expire ->
  0 <= delay_lo c created expire now /\ delay_lo c created expire now <= delay_hi c created expire now
  /\ delay_hi c created expire now <= Z.max 0 (expire - now).
Proof. exact delay_lo_hi_bounds. Qed.
Print Assumptions C18_delay_bounds_float.

(* ---- the cache state machine: all theorems are over arbitrary action lists = all interleavings of the
   atomic steps of any number of GenerateSecret callers, CA answers, timer firings, trust-bundle updates
   and clock ticks ---- *)

(* Every answer carries a private key and a certificate that stem from the same CSR. *)
Theorem C18_pair : forall c l t at_ r,
  In (ERet t at_ (Some r)) (snd (run c init l)) -> r_key r = r_cert r.
Proof. exact pair_all. Qed.
Print Assumptions C18_pair.

(* From any reachable state, in any continuation without an invalidation event (timer firing, bundle
   change), at most one signing succeeds and all callers that get a key/cert get the same one. *)
Theorem C18_single_flight : forall c l1 l2,
  forallb no_inval l2 = true ->
  let s1 := fst (run c init l1) in
  let e2 := snd (run c s1 l2) in
  (nsigned e2 <= 1)%nat /\ (forall p q, In p (keyed e2) -> In q (keyed e2) -> p = q).
Proof. exact single_flight. Qed.
Print Assumptions C18_single_flight.

Example C18_single_flight_nonvacuous :
  let c := {| c_ratio := (1, -1); c_jitter := (0, 0) |} in
  let l := [ASpawn 1 RWorkload; ASpawn 2 RWorkload; ACheck1 1; ACheck1 2; ALock 1; ACheck2 1; ALock 2;
            ATick 5; AReply 1 (CaOk 1000 [1%N] 1%N); ALock 2; ACheck2 2] in
  forallb no_inval l = true /\ nsigned (snd (run c init l)) = 1%nat /\
  keyed (snd (run c init l)) = [(1%N, 1%N); (1%N, 1%N)].
Proof. repeat split; vm_compute; reflexivity. Qed.

(* While a caller is inside CSRSign nobody else holds generateMutex and nothing is cached. *)
Theorem C18_mutex_discipline : forall c l, inv (fst (run c init l)).
Proof. intros. apply run_inv. apply inv_init. Qed.
Print Assumptions C18_mutex_discipline.

(* A successful answer caches the item and schedules exactly one renewal task, no later than expiry. *)
Theorem C18_renewal_scheduled_before_expiry : forall c s t r k expire bnd cr,
  pcs s t = PCsr r k -> workload s = None -> now s <= expire ->
  let '(s1, e) := step c s (AReply t (CaOk expire bnd cr)) in
  exists q it, queue s1 = queue s ++ [q] /\ workload s1 = Some it
    /\ i_created it = now s /\ i_expire it = expire /\ i_key it = k /\ i_cert it = k
    /\ q_created q = now s /\ now s <= q_lo q /\ q_lo q <= q_hi q /\ q_hi q <= expire.
Proof. exact reply_ok_schedules. Qed.
Print Assumptions C18_renewal_scheduled_before_expiry.

(* Whenever something is cached there is exactly one queued task that will rotate it (given strictly
   increasing CreatedTimes, the hypothesis [fresh_run]) ... *)
Theorem C18_one_rotation_per_cert : forall c l, fresh_run c init l ->
  forall it, workload (fst (run c init l)) = Some it ->
  cnt (i_created it) (queue (fst (run c init l))) = 1%nat.
Proof. intros c l H. exact (one_rotation c l H). Qed.
Print Assumptions C18_one_rotation_per_cert.

Example C18_fresh_run_satisfiable :
  let c := {| c_ratio := (1, -1); c_jitter := (0, 0) |} in
  fresh_run c init [ASpawn 1 RWorkload; ACheck1 1; ALock 1; ACheck2 1; ATick 5; AReply 1 (CaOk 1000 [1%N] 1%N);
                    ABundle [2%N]; ASpawn 2 RRoot; ACheck1 2; ALock 2; ACheck2 2; ATick 1; AReply 2 (CaOk 2000 [1%N] 1%N)].
Proof. vm_compute. repeat split; repeat constructor. Qed.

(* ... every other task is a no-op when it fires, and the live one clears the cache and notifies. *)
Theorem C18_stale_task_noop : forall c s k q,
  nth_error (queue s) k = Some q ->
  (forall it, workload s = Some it -> i_created it <> q_created q) ->
  let '(s1, e) := step c s (AFire k) in
  workload s1 = workload s /\ cert_root s1 = cert_root s /\ bundle s1 = bundle s /\ e = []
  /\ queue s1 = remove_nth k (queue s).
Proof. exact fire_stale. Qed.
Print Assumptions C18_stale_task_noop.

Theorem C18_live_task_rotates : forall c s k q it,
  nth_error (queue s) k = Some q -> workload s = Some it -> i_created it = q_created q ->
  let '(s1, e) := step c s (AFire k) in
  workload s1 = None /\ e = [ENotify RWorkload (now s)] /\ queue s1 = remove_nth k (queue s).
Proof. exact fire_live. Qed.
Print Assumptions C18_live_task_rotates.

(* A failed signing attempt changes nothing but the caller's own result and releases the mutex ... *)
Theorem C18_failure_not_sticky : forall c s t r k,
  pcs s t = PCsr r k ->
  let '(s1, e) := step c s (AReply t CaErr) in
  workload s1 = workload s /\ cert_root s1 = cert_root s /\ bundle s1 = bundle s /\ queue s1 = queue s
  /\ lock s1 = None /\ pcs s1 t = PDone /\ e = [ERet t (now s) None].
Proof. exact reply_err_unchanged. Qed.
Print Assumptions C18_failure_not_sticky.

(* ... and the next caller signs again. *)
Theorem C18_failure_next_caller_retries : forall c s t r k t' r',
  pcs s t = PCsr r k -> workload s = None -> pcs s t' = PIdle ->
  let s1 := fst (step c s (AReply t CaErr)) in
  snd (run c s1 [ASpawn t' r'; ACheck1 t'; ALock t'; ACheck2 t']) = [ECsr t' (ncsr s + 1)%N].
Proof. exact reply_err_next_tries. Qed.
Print Assumptions C18_failure_next_caller_retries.

(* Root changes.  A generation triggered by a "default" request announces a changed CA root; a trust-bundle
   change is announced and invalidates the cache. *)
Theorem C18_root_change_announced_partial : forall c s t k expire bnd cr,
  pcs s t = PCsr RWorkload k ->
  let roots := roots_of bnd cr in
  let '(s1, e) := step c s (AReply t (CaOk expire bnd cr)) in
  cert_root s1 = roots /\ (cert_root s <> roots -> In (ENotify RRoot (now s)) e).
Proof. exact reply_ok_workload_announces. Qed.
Print Assumptions C18_root_change_announced_partial.

Theorem C18_bundle_change_announced : forall c s b,
  b <> bundle s ->
  let '(s1, e) := step c s (ABundle b) in
  bundle s1 = b /\ workload s1 = None /\ e = [ENotify RRoot (now s); ENotify RWorkload (now s)].
Proof. exact bundle_change_announces. Qed.
Print Assumptions C18_bundle_change_announced.

(* The full statement ("a changed root is always announced") is false of the faithful model: when the
   generation is triggered by a ROOTCA request the new roots are cached with the certificate, certRoot
   stays stale and nobody is notified (known finding root-change-seen-by-rootca-request-not-announced;
   the same trace is run against the real code as harness case 2). *)
Theorem C18_root_change_announced_refuted :
  exists c l t expire,
    let s := fst (run c init l) in
    cert_root s = [1%N] /\
    let '(s1, e) := step c s (AReply t (CaOk expire [2%N] 1%N)) in
    (exists it, workload s1 = Some it /\ i_root it = [2%N]) /\ cert_root s1 = [1%N] /\
    e = [ESigned 2; ERet t (now s) (Some {| r_key := Some 2%N; r_cert := Some 2%N; r_created := now s;
                                            r_expire := expire; r_root := [2%N] |})].
Proof.
  exists {| c_ratio := (1, -1); c_jitter := (0, 0) |},
         [ASpawn 1 RWorkload; ACheck1 1; ALock 1; ACheck2 1; ATick 5; AReply 1 (CaOk 1000 [1%N] 1%N);
          AFire 0; ASpawn 2 RRoot; ACheck1 2; ALock 2; ACheck2 2; ATick 5],
         2%N, 2000.
  vm_compute. repeat split. eexists. split; reflexivity.
Qed.
Print Assumptions C18_root_change_announced_refuted.
