(* C18 — executable model of the node agent's workload-certificate cache.

   Anchors (all in /repo):
     security/pkg/nodeagent/cache/secretcache.go   rotateTime, GenerateSecret, getCachedSecret,
                                                   generateNewSecret, registerSecret,
                                                   UpdateConfigTrustBundle, mergeConfigTrustBundle
     pkg/queue/delay.go                            PushDelayed / Run (a task fires once, at its due time)

   Times are nanoseconds in Z.  Certificates, keys and root certificates are interned to N by the
   harness (key id / cert id = number of the CSRSign call they belong to; root ids are ranks in the
   sorted order of the PEM strings, so that sorting ids = sorting PEMs).
   Definitions only; proofs are in Proofs.v. *)
From Coq Require Import List NArith ZArith QArith Qround Bool.
Import ListNotations.
Open Scope Z_scope.

(* ------------------------------------------------------------------------------------------ *)
(** * rotateTime — exact (Z/Q) version.

   Go:  jitterGraceRatio := graceRatio + jitter;  clamp to [0,1]
        secretLifeTime   := ExpireTime - CreatedTime
        gracePeriod      := time.Duration(jitterGraceRatio * float64(secretLifeTime))   -- truncation
        return max(time.Until(ExpireTime.Add(-gracePeriod)), 0)
   [jgr] is the jittered grace ratio before clamping (ratio + sample, |sample| <= jitter). *)

Definition Qtrunc (q : Q) : Z := if Qle_bool 0 q then Qfloor q else Qceiling q.

Definition clamp01 (q : Q) : Q :=
  if negb (Qle_bool q 1) then 1%Q else if negb (Qle_bool 0 q) then 0%Q else q.

Definition grace_q (jgr : Q) (life : Z) : Z := Qtrunc (clamp01 jgr * inject_Z life).

Definition rotate_delay_q (created expire now : Z) (jgr : Q) : Z :=
  Z.max (expire - grace_q jgr (expire - created) - now) 0.

(* ------------------------------------------------------------------------------------------ *)
(** * rotateTime — float-faithful version (what the code computes, bit for bit, for |values| in
   the normal float64 range).  A float is a dyadic [m * 2^e]; [round53] is IEEE round-to-nearest-even
   to a 53-bit significand (exponent range unbounded: overflow/denormals are outside the model). *)

Definition dy := (Z * Z)%type.

Definition round53 (d : dy) : dy :=
  let '(m, e) := d in
  let a := Z.abs m in
  let k := Z.log2 a + 1 - 53 in
  if k <=? 0 then (m, e) else
  let q := a / 2 ^ k in
  let r := a mod 2 ^ k in
  let h := 2 ^ (k - 1) in
  let q' := if (h <? r) || ((r =? h) && Z.odd q) then q + 1 else q in
  (Z.sgn m * q', e + k).

Definition dy_add (x y : dy) : dy :=
  let '(m1, e1) := x in let '(m2, e2) := y in
  let e := Z.min e1 e2 in
  round53 (m1 * 2 ^ (e1 - e) + m2 * 2 ^ (e2 - e), e).

Definition dy_neg (x : dy) : dy := (- fst x, snd x).

Definition dy_mul (x y : dy) : dy := round53 (fst x * fst y, snd x + snd y).

(* x > 1 ? *)
Definition dy_gt1 (x : dy) : bool :=
  let '(m, e) := x in if 0 <=? e then 1 <? m * 2 ^ e else 2 ^ (- e) <? m.

Definition dy_clamp01 (x : dy) : dy :=
  if dy_gt1 x then (1, 0) else if fst x <? 0 then (0, 0) else x.

(* float64 -> int64 conversion: truncation toward zero *)
Definition dy_trunc (x : dy) : Z :=
  let '(m, e) := x in if 0 <=? e then m * 2 ^ e else Z.quot m (2 ^ (- e)).

(* gracePeriod for an (unclamped) float ratio *)
Definition grace_fl (jgr : dy) (life : Z) : Z :=
  dy_trunc (dy_mul (dy_clamp01 jgr) (round53 (life, 0))).

Definition rotate_delay_fl (created expire now : Z) (jgr : dy) : Z :=
  Z.max (expire - grace_fl jgr (expire - created) - now) 0.

(* The jitter sample is (rand.Float64() * jitter) * (+1|-1): unobservable, but every float operation
   is monotone, so the delay lies between the delays for ratio+jitter and ratio-jitter. *)
Record cfg := { c_ratio : dy; c_jitter : dy }.

Definition delay_plus (c : cfg) (created expire now : Z) : Z :=
  rotate_delay_fl created expire now (dy_add (c_ratio c) (c_jitter c)).
Definition delay_minus (c : cfg) (created expire now : Z) : Z :=
  rotate_delay_fl created expire now (dy_add (c_ratio c) (dy_neg (c_jitter c))).
(* for a positive lifetime the larger ratio gives the shorter delay; for a negative one (certificate
   already expired when issued) the order flips *)
Definition delay_lo (c : cfg) (created expire now : Z) : Z :=
  Z.min (delay_plus c created expire now) (delay_minus c created expire now).
Definition delay_hi (c : cfg) (created expire now : Z) : Z :=
  Z.max (delay_plus c created expire now) (delay_minus c created expire now).

Definition dyQ (x : dy) : Q := (inject_Z (fst x) * Qpower 2 (snd x))%Q.

(* ------------------------------------------------------------------------------------------ *)
(** * The cache state machine *)

Inductive res := RWorkload | RRoot.   (* "default" | "ROOTCA" *)

Definition res_eqb (a b : res) : bool :=
  match a, b with RWorkload, RWorkload | RRoot, RRoot => true | _, _ => false end.

(* security.SecretItem as cached: key and certificate (by CSR number), times, CA roots *)
Record item := { i_key : N; i_cert : N; i_created : Z; i_expire : Z; i_root : list N }.

(* what a GenerateSecret caller gets back *)
Record ret := { r_key : option N; r_cert : option N; r_created : Z; r_expire : Z; r_root : list N }.

(* CA client behaviour for one CSRSign + GetRootCertBundle round trip *)
Inductive outcome :=
| CaOk (expire : Z) (bundle : list N) (chain_root : N)   (* cert for the submitted CSR, NotAfter = expire *)
| CaErr.                                                 (* CSRSign error | GetRootCertBundle error | unparsable chain *)

(* delayed-queue entry created by registerSecret: due interval and the item's CreatedTime *)
Record qent := { q_lo : Z; q_hi : Z; q_created : Z }.

(* program counter of one GenerateSecret call *)
Inductive pc :=
| PIdle
| PStart (r : res)              (* before the first getCachedSecret *)
| PWant (r : res)               (* cache miss; waiting for generateMutex *)
| PLocked (r : res)             (* holds generateMutex, before the second getCachedSecret *)
| PCsr (r : res) (kid : N)      (* inside caClient.CSRSign with freshly generated key kid *)
| PDone.

Record st := {
  workload : option item;       (* secretCache.workload *)
  cert_root : list N;           (* secretCache.certRoot ([] = nil) *)
  bundle : list N;              (* configTrustBundle *)
  queue : list qent;            (* pending delayed tasks *)
  lock : option N;              (* holder of generateMutex *)
  ncsr : N;                     (* CSRSign calls so far *)
  pcs : N -> pc;
  now : Z }.

Inductive ev :=
| ECsr (t : N) (kid : N)              (* thread t entered CSRSign with key kid *)
| ESigned (kid : N)                   (* the CA answered CSR kid successfully *)
| ERet (t : N) (at_ : Z) (r : option ret)   (* GenerateSecret returned (None = error) *)
| ENotify (r : res) (at_ : Z).        (* secretHandler callback *)

Inductive act :=
| ASpawn (t : N) (r : res)
| ACheck1 (t : N)
| ALock (t : N)
| ACheck2 (t : N)
| AReply (t : N) (o : outcome)
| AFire (k : nat)                     (* the k-th pending task is executed by the queue worker *)
| ABundle (b : list N)                (* UpdateConfigTrustBundle *)
| ATick (d : Z).

(* sorted, duplicate-free union: mergeConfigTrustBundle (sets.SortedList) *)
Fixpoint insert_u (x : N) (l : list N) : list N :=
  match l with
  | [] => [x]
  | y :: l' => if (x <? y)%N then x :: l else if (x =? y)%N then l else y :: insert_u x l'
  end.
Definition merge_roots (b roots : list N) : list N := fold_right insert_u [] (b ++ roots).

Fixpoint list_N_eqb (a b : list N) : bool :=
  match a, b with
  | [], [] => true
  | x :: a', y :: b' => (x =? y)%N && list_N_eqb a' b'
  | _, _ => false
  end.

(* getCachedSecret *)
Definition cached_ret (s : st) (r : res) (it : item) : ret :=
  match r with
  | RRoot => {| r_key := None; r_cert := None; r_created := 0; r_expire := 0;
                r_root := merge_roots (bundle s) (i_root it) |}
  | RWorkload => {| r_key := Some (i_key it); r_cert := Some (i_cert it);
                    r_created := i_created it; r_expire := i_expire it; r_root := [] |}
  end.

(* the item GenerateSecret returns after a fresh generation *)
Definition fresh_ret (s : st) (r : res) (it : item) : ret :=
  {| r_key := Some (i_key it); r_cert := Some (i_cert it);
     r_created := i_created it; r_expire := i_expire it;
     r_root := match r with RRoot => merge_roots (bundle s) (i_root it) | RWorkload => i_root it end |}.

Definition upd (f : N -> pc) (t : N) (v : pc) : N -> pc := fun x => if (x =? t)%N then v else f x.

Definition set_pc (s : st) (t : N) (v : pc) : st :=
  {| workload := workload s; cert_root := cert_root s; bundle := bundle s; queue := queue s;
     lock := lock s; ncsr := ncsr s; pcs := upd (pcs s) t v; now := now s |}.
Definition set_lock (s : st) (l : option N) : st :=
  {| workload := workload s; cert_root := cert_root s; bundle := bundle s; queue := queue s;
     lock := l; ncsr := ncsr s; pcs := pcs s; now := now s |}.
Definition set_workload (s : st) (w : option item) : st :=
  {| workload := w; cert_root := cert_root s; bundle := bundle s; queue := queue s;
     lock := lock s; ncsr := ncsr s; pcs := pcs s; now := now s |}.
Definition set_queue (s : st) (q : list qent) : st :=
  {| workload := workload s; cert_root := cert_root s; bundle := bundle s; queue := q;
     lock := lock s; ncsr := ncsr s; pcs := pcs s; now := now s |}.
Definition set_cert_root (s : st) (r : list N) : st :=
  {| workload := workload s; cert_root := r; bundle := bundle s; queue := queue s;
     lock := lock s; ncsr := ncsr s; pcs := pcs s; now := now s |}.
Definition set_bundle (s : st) (b : list N) : st :=
  {| workload := workload s; cert_root := cert_root s; bundle := b; queue := queue s;
     lock := lock s; ncsr := ncsr s; pcs := pcs s; now := now s |}.
Definition set_ncsr (s : st) (n : N) : st :=
  {| workload := workload s; cert_root := cert_root s; bundle := bundle s; queue := queue s;
     lock := lock s; ncsr := n; pcs := pcs s; now := now s |}.
Definition set_now (s : st) (t : Z) : st :=
  {| workload := workload s; cert_root := cert_root s; bundle := bundle s; queue := queue s;
     lock := lock s; ncsr := ncsr s; pcs := pcs s; now := t |}.

(* generateNewSecret's root choice: the CA's bundle, or the last certificate of the chain *)
Definition roots_of (bnd : list N) (chain_root : N) : list N :=
  match bnd with [] => [chain_root] | _ => bnd end.

(* registerSecret: skip when something is cached, else cache and push exactly one delayed task *)
Definition register (c : cfg) (s : st) (it : item) : st :=
  match workload s with
  | Some _ => s
  | None =>
    let lo := delay_lo c (i_created it) (i_expire it) (now s) in
    let hi := delay_hi c (i_created it) (i_expire it) (now s) in
    set_queue (set_workload s (Some it))
              (queue s ++ [{| q_lo := now s + lo; q_hi := now s + hi; q_created := i_created it |}])
  end.

Fixpoint remove_nth {A} (k : nat) (l : list A) : list A :=
  match k, l with
  | _, [] => []
  | O, _ :: l' => l'
  | S k', x :: l' => x :: remove_nth k' l'
  end.

Definition step (c : cfg) (s : st) (a : act) : st * list ev :=
  match a with
  | ASpawn t r =>
    match pcs s t with PIdle => (set_pc s t (PStart r), []) | _ => (s, []) end
  | ACheck1 t =>
    match pcs s t with
    | PStart r =>
      match workload s with
      | Some it => (set_pc s t PDone, [ERet t (now s) (Some (cached_ret s r it))])
      | None => (set_pc s t (PWant r), [])
      end
    | _ => (s, [])
    end
  | ALock t =>
    match pcs s t, lock s with
    | PWant r, None => (set_pc (set_lock s (Some t)) t (PLocked r), [])
    | _, _ => (s, [])
    end
  | ACheck2 t =>
    match pcs s t with
    | PLocked r =>
      match workload s with
      | Some it => (set_pc (set_lock s None) t PDone, [ERet t (now s) (Some (cached_ret s r it))])
      | None => let k := (ncsr s + 1)%N in (set_pc (set_ncsr s k) t (PCsr r k), [ECsr t k])
      end
    | _ => (s, [])
    end
  | AReply t o =>
    match pcs s t with
    | PCsr r kid =>
      match o with
      | CaErr => (set_pc (set_lock s None) t PDone, [ERet t (now s) None])
      | CaOk expire bnd chain_root =>
        let it := {| i_key := kid; i_cert := kid; i_created := now s; i_expire := expire;
                     i_root := roots_of bnd chain_root |} in
        let s1 := register c s it in
        let '(s2, evs) :=
          match r with
          | RRoot => (s1, [])
          | RWorkload =>
            if list_N_eqb (cert_root s1) (i_root it) then (s1, [])
            else (set_cert_root s1 (i_root it), [ENotify RRoot (now s)])
          end in
        (set_pc (set_lock s2 None) t PDone,
         ESigned kid :: evs ++ [ERet t (now s) (Some (fresh_ret s2 r it))])
      end
    | _ => (s, [])
    end
  | AFire k =>
    match nth_error (queue s) k with
    | None => (s, [])
    | Some q =>
      let s1 := set_queue s (remove_nth k (queue s)) in
      match workload s with
      | Some it => if i_created it =? q_created q
                   then (set_workload s1 None, [ENotify RWorkload (now s)]) else (s1, [])
      | None => (s1, [])
      end
    end
  | ABundle b =>
    if list_N_eqb (bundle s) b then (s, [])
    else (set_workload (set_bundle s b) None, [ENotify RRoot (now s); ENotify RWorkload (now s)])
  | ATick d => (set_now s (now s + Z.max d 0), [])
  end.

Fixpoint run (c : cfg) (s : st) (l : list act) : st * list ev :=
  match l with
  | [] => (s, [])
  | a :: l' => let '(s1, e1) := step c s a in let '(s2, e2) := run c s1 l' in (s2, e1 ++ e2)
  end.

Definition init : st :=
  {| workload := None; cert_root := []; bundle := []; queue := []; lock := None; ncsr := 0%N;
     pcs := fun _ => PIdle; now := 0 |}.
