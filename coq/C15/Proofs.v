(* C15 — lemmas. *)
From Coq Require Import List NArith Bool Lia.
From V Require Import C15.Model.
Import ListNotations.
Open Scope N_scope.

(* ------------------------------------------------------------------ decidable equality of registry states *)
Fixpoint leqb {A} (eqb : A -> A -> bool) (a b : list A) : bool :=
  match a, b with
  | [], [] => true
  | x :: a, y :: b => eqb x y && leqb eqb a b
  | _, _ => false
  end.
Definition meqb {A} (eqb : A -> A -> bool) (a b : map A) : bool :=
  leqb (fun x y => (fst x =? fst y) && eqb (snd x) (snd y)) a b.
Definition svcv_eqb (a b : svcv) :=
  match a, b with Svc h1 x1 p1, Svc h2 x2 p2 => Bool.eqb h1 h2 && Bool.eqb x1 x2 && leqb N.eqb p1 p2 end.
Definition shard_eqb (a b : shard) :=
  match a, b with Shard c1 s1 f1, Shard c2 s2 f2 => leqb ep_eqb c1 c2 && leqb N.eqb s1 s2 && Bool.eqb f1 f2 end.

(* the registry part of a state (stores, queue and push log excluded) *)
Definition reg_eqb (a b : st) : bool :=
  meqb (leqb N.eqb) (byip a) (byip b) && meqb N.eqb (ipby a) (ipby b) && meqb (leqb N.eqb) (rsy a) (rsy b) &&
  meqb (meqb (leqb ep_eqb)) (cache a) (cache b) && meqb svcv_eqb (smap a) (smap b) &&
  meqb shard_eqb (shards a) (shards b).

(* run a schedule, then drain the work queue (fuel = an upper bound on the steps needed) *)
Fixpoint drain (fuel : nat) (s : st) : st :=
  match fuel with
  | O => s
  | S f => match q s with
           | [] => s
           | TPod id _ _ _ :: _ => drain f (step s (H (getd [] (match get id (sp s) with Some p => p_ip p | None => 0 end) (rsy s))))
           | _ => drain f (step s (H []))
           end
  end.

(* ------------------------------------------------------------------ "endpoint before pod": remember and re-queue *)
(* getPod on a missing expected pod registers the slice under the address and skips the endpoint *)
Lemma build_slice_registers sp byip svc sid np ip pid cond es r :
  get pid sp = None ->
  build_slice sp byip svc sid np (Ep ip (Some pid) cond :: es) r =
  build_slice sp byip svc sid np es (madd ip sid r).
Proof. intros Hn. cbn [build_slice]. rewrite Hn. reflexivity. Qed.

Lemma is_perm_refl l : is_perm l l = true.
Proof. induction l as [|x l IH]; [reflexivity|]. cbn [is_perm smem rem1]. rewrite N.eqb_refl. cbn. exact IH. Qed.

(* addPod: a pod that becomes eligible under an address with waiting slices re-queues exactly those slices *)
Lemma add_pod_requeues s p ip id l :
  smem id (getd [] ip (byip s)) = false ->
  get ip (rsy s) = Some l ->
  q (add_pod s p ip id false l) = q s ++ List.map TReq l /\ bad (add_pod s p ip id false l) = bad s.
Proof.
  intros Hm Hr. unfold add_pod. rewrite Hm. cbn [rsy set_ipby set_byip]. rewrite Hr.
  rewrite is_perm_refl. cbn. split; reflexivity.
Qed.

(* the re-queued task re-reads the slice from the informer store and rebuilds its cache entry from the
   store as it is then (podArrived -> onEvent(nil, slice, Add)) *)
Lemma requeue_rebuilds s sid sl :
  get sid (se s) = Some sl ->
  run_task s (TReq sid) [] = slice_on_event s sid Add None sl.
Proof. intros Hs. cbn [run_task]. rewrite Hs. reflexivity. Qed.

(* PodCache.onEvent for a pod that is not eligible (not ready / terminating / no IP) never re-queues:
   this is why an endpoint that was seen before its not-yet-ready pod stays missing *)
Lemma not_eligible_never_requeues s id e old p sp :
  elig p = false -> q (pod_on_event s id e old p sp) = q s.
Proof.
  intros He. unfold pod_on_event.
  destruct (if p_ip p =? 0 then getd 0 id (ipby s) else p_ip p) as [|ip]; [reflexivity|].
  cbn [N.eqb]. destruct e; rewrite ?He; cbn [negb];
    try reflexivity; unfold delete_ip; destruct (smem id _); reflexivity.
Qed.

(* ------------------------------------------------------------------ bounded cold-start domain *)
(* all clusters over one service, two pods and two slices of that service *)
Definition svc_opts : list (option svcv) := [None; Some (Svc false false [0])].
Definition pod_opts (ip : N) : list (option podv) :=
  [None; Some (Pod ip true false 0 1); Some (Pod ip false false 0 2)].
Definition e0 c := Ep 1 (Some 0) c.
Definition e1 c := Ep 2 (Some 1) c.
Definition slice0_opts : list (option slicev) :=
  None :: flat_map (fun c => [Some (Slice 0 1 [e0 c]); Some (Slice 0 1 [e1 c]); Some (Slice 0 2 [e0 c; e1 c])]) [0; 2].
Definition slice1_opts : list (option slicev) := [None; Some (Slice 0 1 [e1 0]); Some (Slice 0 1 [e0 2])].

Definition opt_write {A} (mk : N -> option A -> op) (id : N) (o : option A) : list op :=
  match o with Some _ => [mk id o] | None => [] end.

Inductive cluster := Cluster (sv : option svcv) (p0 p1 : option podv) (s0 s1 : option slicev).
Definition clusters : list cluster :=
  flat_map (fun sv => flat_map (fun p0 => flat_map (fun p1 => flat_map (fun s0 =>
    List.map (fun s1 => Cluster sv p0 p1 s0 s1) slice1_opts) slice0_opts) (pod_opts 2)) (pod_opts 1)) svc_opts.

(* the initial add events of a cluster (informers are synced before the queue runs: the stores are final) *)
Definition adds (c : cluster) : list op :=
  match c with Cluster sv p0 p1 s0 s1 =>
    opt_write WSv 0 sv ++ opt_write WPod 0 p0 ++ opt_write WPod 1 p1 ++ opt_write WSl 0 s0 ++ opt_write WSl 1 s1 end.

Fixpoint insert_all {A} (x : A) (l : list A) : list (list A) :=
  match l with
  | [] => [[x]]
  | y :: l' => (x :: l) :: List.map (cons y) (insert_all x l')
  end.
Fixpoint perms {A} (l : list A) : list (list A) :=
  match l with [] => [[]] | x :: l => flat_map (insert_all x) (perms l) end.

(* no service event after a slice event *)
Fixpoint svc_first (seen_slice : bool) (p : list op) : bool :=
  match p with
  | [] => true
  | WSl _ _ :: p => svc_first true p
  | WSv _ _ :: p => negb seen_slice && svc_first seen_slice p
  | _ :: p => svc_first seen_slice p
  end.

Definition final_of (c : cluster) : st := fold_left (fun s o => set_q [] (step s o)) (adds c) st0.

(* the controller's state after the add events arrived in order [p] and the queue was drained equals derive *)
Definition cold_ok (c : cluster) (p : list op) : bool :=
  let s := drain 30 (run p st0) in
  let f := final_of c in
  negb (bad s) && match q s with [] => true | _ => false end &&
  reg_eqb s (derive (sp f) (se f) (ss f)).

(* ------------------------------------------------------------------ witnesses against full confluence *)
Definition final_reg (ops : list op) : st := fold_left (fun s o => match o with H _ => s | _ => set_q [] (step s o) end) ops st0.
Definition converged (ops : list op) : bool :=
  let s := run ops st0 in let f := final_reg ops in
  negb (bad s) && match q s with [] => true | _ => false end && reg_eqb s (derive (sp f) (se f) (ss f)).

(* harness case 1: endpoint before its pod, the pod arrives not ready *)
Definition wit_unready : list op :=
  [WSv 0 (Some (Svc false false [0])); H []; WSl 0 (Some (Slice 0 1 [Ep 1 (Some 0) 0])); H [];
   WPod 0 (Some (Pod 1 false false 0 1)); H []].
(* harness case 2: slice handled before its service *)
Definition wit_svc_late : list op :=
  [WPod 0 (Some (Pod 1 true false 0 1)); H []; WSl 0 (Some (Slice 0 1 [Ep 1 (Some 0) 2])); H [];
   WSv 0 (Some (Svc false false [0])); H []].
(* harness case 3: endpoint without targetRef handled before the pod event *)
Definition wit_noref : list op :=
  [WSv 0 (Some (Svc false false [0])); H []; WSl 0 (Some (Slice 0 1 [Ep 4 None 0])); H [];
   WPod 3 (Some (Pod 4 true false 0 1)); H []].
(* harness case 4: last endpoint removed, the shard entry and its service accounts stay *)
Definition wit_sa_residue : list op :=
  [WSv 0 (Some (Svc false false [0])); WPod 0 (Some (Pod 1 true false 0 1)); WSl 0 (Some (Slice 0 1 [Ep 1 (Some 0) 0]));
   H []; H []; H []; WSl 0 (Some (Slice 0 1 [])); H []].

Lemma not_confluent :
  converged wit_unready = false /\ converged wit_svc_late = false /\ converged wit_noref = false /\
  converged wit_sa_residue = false.
Proof. vm_compute. repeat split; reflexivity. Qed.

(* the same witnesses are quiescent: nothing is left in the work queue that could still repair them *)
Lemma witnesses_quiescent :
  q (run wit_unready st0) = [] /\ q (run wit_svc_late st0) = [] /\ q (run wit_noref st0) = [] /\ q (run wit_sa_residue st0) = [].
Proof. vm_compute. repeat split; reflexivity. Qed.

(* the repaired order of each witness converges *)
Lemma witnesses_good_order :
  converged [WSv 0 (Some (Svc false false [0])); H []; WPod 0 (Some (Pod 1 false false 0 1)); H [];
             WSl 0 (Some (Slice 0 1 [Ep 1 (Some 0) 0])); H []] = true /\
  converged [WSv 0 (Some (Svc false false [0])); H []; WPod 0 (Some (Pod 1 true false 0 1)); H [];
             WSl 0 (Some (Slice 0 1 [Ep 1 (Some 0) 2])); H []] = true /\
  converged [WSv 0 (Some (Svc false false [0])); H []; WSl 0 (Some (Slice 0 1 [Ep 1 (Some 0) 0])); H [];
             WPod 0 (Some (Pod 1 true false 0 1)); H [0]; H []] = true.
Proof. vm_compute. repeat split; reflexivity. Qed.

(* harness directed scenario 24: one pod update changes the IP and loses readiness *)
Definition wit_ip_change : list op :=
  [WPod 0 (Some (Pod 1 true false 0 1)); H []; WPod 0 (Some (Pod 2 false false 0 1)); H []].
(* harness directed scenario 23: label edit on a not-ready pod that the service selects *)
Definition wit_label_unready : list op :=
  [WSv 1 (Some (Svc false false [0])); WPod 0 (Some (Pod 1 false false 0 1)); WSl 0 (Some (Slice 1 1 [Ep 1 (Some 0) 1]));
   H []; H []; H []; WPod 0 (Some (Pod 1 false false 1 1)); H []].
(* a referenced pod is deleted and no slice event follows *)
Definition wit_pod_deleted : list op :=
  [WSv 0 (Some (Svc false false [0])); WPod 0 (Some (Pod 1 true false 0 1)); WSl 0 (Some (Slice 0 1 [Ep 1 (Some 0) 0]));
   H []; H []; H []; WPod 0 None; H []].

Lemma not_confluent_more :
  converged wit_ip_change = false /\ converged wit_label_unready = false /\ converged wit_pod_deleted = false /\
  q (run wit_ip_change st0) = [] /\ q (run wit_label_unready st0) = [] /\ q (run wit_pod_deleted st0) = [].
Proof. vm_compute. repeat split; reflexivity. Qed.

(* the PodCache symptom of wit_ip_change: the old address still lists the pod *)
Lemma ip_change_leaves_entry :
  byip (run wit_ip_change st0) = [(1, [0])] /\ ipby (run wit_ip_change st0) = [(0, 1)] /\
  d_byip (sp (run wit_ip_change st0)) = [].
Proof. vm_compute. repeat split; reflexivity. Qed.

(* endpointSliceCache.get keeps the first endpoint per (address, port) in slice iteration order, which is Go
   map order: the published endpoint of a duplicated key depends on it *)
Lemma duplicate_winner_depends_on_order :
  let a := [E 1 0 1 1 1] in let b := [E 1 0 1 1 4] in
  dedup [] (a ++ b) <> dedup [] (b ++ a) /\ conflict (a ++ b) = true.
Proof. vm_compute. split; [discriminate|reflexivity]. Qed.
