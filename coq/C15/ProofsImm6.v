(* C15 — confluence for immediate-delivery schedules, part 6: slice writes preserve the invariant. *)
From Coq Require Import List NArith Bool Lia.
From V Require Import C15.Model C15.Proofs C15.ProofsMap C15.ProofsIdx C15.ProofsImm1 C15.ProofsImm2 C15.ProofsImm3 C15.ProofsImm4 C15.ProofsImm5.
Import ListNotations.
Open Scope N_scope.

(* the slice handler re-establishes the invariant once needResync and the cache of [soe_pre] are right *)
Lemma inv_after_soe s1 sid e old cur :
  q s1 = [] -> bad s1 = false -> specA s1 -> specB s1 -> specC s1 -> specG s1 -> specF s1 ->
  (forall x ip, smem x (getd [] ip (rsy (soe_pre s1 sid e old cur))) =
                match get x (se s1) with Some v => reg_at (sp s1) (s_eps v) ip | None => false end) ->
  (forall x h, get x (getd [] h (cache (soe_pre s1 sid e old cur))) =
               match get x (se s1) with
               | Some (Slice h' np es) => if h' =? h then Some (d_slice_eps (sp s1) [] (get h (ss s1)) np es) else None
               | None => None end) ->
  Inv (slice_on_event s1 sid e old cur).
Proof.
  intros Hq Hb HA HB HC HG HF HD HE. set (s' := slice_on_event s1 sid e old cur).
  assert (Hfr : fr s' = fr s1) by apply fr_soe.
  destruct (fr_fields _ _ Hfr) as (Hsp & Hse & Hss & Hbi & Hib & Hsm & Hq' & Hb').
  destruct (rc_soe s1 sid e old cur) as [Hr Hc]. fold s' in Hr, Hc.
  constructor.
  - rewrite Hq'. exact Hq.
  - rewrite Hb'. exact Hb.
  - intros id ip. rewrite Hbi, Hsp. apply HA.
  - intros id. rewrite Hib, Hsp. apply HB.
  - intros k. rewrite Hsm, Hss. apply HC.
  - intros x k np es. rewrite Hse. apply HG.
  - intros x ip. rewrite Hr, Hse, Hsp. apply HD.
  - intros x k. rewrite Hc, Hse, Hsp, Hss. apply HE.
  - apply F_soe. exact HF.
Qed.

Lemma inv_slice s sid v : Inv s -> good_step s (WSl sid v) -> Inv (imm_step s (WSl sid v)).
Proof.
  intros [Hq Hb HA HB HC HG HD HE HF] Hgood.
  unfold imm_step. cbn [step]. unfold write.
  destruct v as [[h np es]|]; destruct (get sid (se s)) as [[h0 np0 es0]|] eqn:G; cbv beta iota zeta.
  - (* update *)
    cbn [good_step] in Hgood. rewrite G in Hgood. destruct Hgood as (Har & -> & HG6).
    rewrite settle_single with (t := TSl sid Upd (Some (Slice h np0 es0)) (Slice h np es)); [|st_simpl; rewrite Hq; reflexivity|reflexivity].
    cbn [run_task]. st_simpl. rewrite get_upd_eq.
    set (s1 := set_q [] (set_q (q s ++ [TSl sid Upd (Some (Slice h np0 es0)) (Slice h np es)]) (set_se (upd sid (Slice h np es) (se s)) s))).
    assert (HG1 : specG s1).
    { intros x k np' es'. unfold s1. st_simpl. rewrite get_upd. destruct (x =? sid); [intros H; injection H as <- <- <-; exact Har|apply HG]. }
    apply inv_after_soe; try assumption; try reflexivity.
    + (* needResync *)
      intros x ip. unfold soe_pre.
      set (s0 := cleanup_removed s1 sid (Slice h np0 es0) (Slice h np es)).
      destruct (ucs_fields s0 sid h np es) as [Ur _]. cbv zeta in Ur. rewrite Ur. clear Ur.
      unfold s0, cleanup_removed, s1. st_simpl. cbn [s_eps].
      rewrite cleanup_fold, smem_map_addr, get_upd.
      destruct (x =? sid) eqn:E; cbn [andb s_eps].
      * apply N.eqb_eq in E. subst x. specialize (HD sid ip). rewrite G in HD. cbn [s_eps] in HD. rewrite HD.
        destruct (reg_at (sp s) es ip) eqn:R; [apply orb_true_r|]. rewrite orb_false_r.
        destruct (reg_at (sp s) es0 ip) eqn:R0; [|reflexivity]. cbn [andb].
        rewrite (reg_addr _ _ _ R0). cbn [andb].
        destruct (addr_in es ip) eqn:Ad; [|reflexivity]. exfalso.
        apply addr_in_in in Ad. destruct Ad as (r & c & Hin).
        destruct (all_ref_in _ _ _ _ Har Hin) as [pid' ->].
        apply reg_at_in in R0. destruct R0 as (pid & c0 & Hin0 & Hn).
        rewrite (HG6 _ _ _ _ _ Hin0 Hin) in Hn.
        assert (R' : reg_at (sp s) es ip = true) by (apply reg_at_in; exists pid', c; split; assumption).
        rewrite R' in R. discriminate.
      * rewrite andb_true_r, orb_false_r. apply HD.
    + (* cache *)
      intros x k. unfold soe_pre.
      set (s0 := cleanup_removed s1 sid (Slice h np0 es0) (Slice h np es)).
      destruct (ucs_fields s0 sid h np es) as [_ Uc]. cbv zeta in Uc. rewrite Uc. clear Uc.
      unfold s0, cleanup_removed, s1. st_simpl. rewrite get_upd.
      destruct (x =? sid) eqn:E.
      * apply N.eqb_eq in E. subst x. rewrite andb_true_r, (N.eqb_sym h k). destruct (k =? h) eqn:E2.
        -- apply N.eqb_eq in E2. subst k. rewrite HC, (d_slice_eps_byip (sp s) (byip s) [] _ np es Har). reflexivity.
        -- rewrite (HE sid k), G, (N.eqb_sym h k), E2. reflexivity.
      * rewrite andb_false_r. apply HE.
  - (* create *)
    cbn [good_step] in Hgood. rewrite G in Hgood. destruct Hgood as (Har & _).
    rewrite settle_single with (t := TSl sid Add None (Slice h np es)); [|st_simpl; rewrite Hq; reflexivity|reflexivity].
    cbn [run_task]. st_simpl. rewrite get_upd_eq.
    set (s1 := set_q [] (set_q (q s ++ [TSl sid Add None (Slice h np es)]) (set_se (upd sid (Slice h np es) (se s)) s))).
    assert (HG1 : specG s1).
    { intros x k np' es'. unfold s1. st_simpl. rewrite get_upd. destruct (x =? sid); [intros H; injection H as <- <- <-; exact Har|apply HG]. }
    apply inv_after_soe; try assumption; try reflexivity.
    + intros x ip. unfold soe_pre.
      destruct (ucs_fields s1 sid h np es) as [Ur _]. cbv zeta in Ur. rewrite Ur. clear Ur.
      unfold s1. st_simpl. rewrite get_upd.
      destruct (x =? sid) eqn:E; cbn [andb s_eps].
      * apply N.eqb_eq in E. subst x. specialize (HD sid ip). rewrite G in HD. rewrite HD. reflexivity.
      * rewrite orb_false_r. apply HD.
    + intros x k. unfold soe_pre.
      destruct (ucs_fields s1 sid h np es) as [_ Uc]. cbv zeta in Uc. rewrite Uc. clear Uc.
      unfold s1. st_simpl. rewrite get_upd.
      destruct (x =? sid) eqn:E.
      * apply N.eqb_eq in E. subst x. rewrite andb_true_r, (N.eqb_sym h k). destruct (k =? h) eqn:E2.
        -- apply N.eqb_eq in E2. subst k. rewrite HC, (d_slice_eps_byip (sp s) (byip s) [] _ np es Har). reflexivity.
        -- rewrite (HE sid k), G. reflexivity.
      * rewrite andb_false_r. apply HE.
  - (* delete *)
    rewrite settle_single with (t := TSl sid Del None (Slice h0 np0 es0)); [|st_simpl; rewrite Hq; reflexivity|reflexivity].
    cbn [run_task].
    set (s1 := set_q [] (set_q (q s ++ [TSl sid Del None (Slice h0 np0 es0)]) (set_se (del sid (se s)) s))).
    assert (HG1 : specG s1).
    { intros x k np' es'. unfold s1. st_simpl. rewrite get_del. destruct (x =? sid); [discriminate|apply HG]. }
    apply inv_after_soe; try assumption; try reflexivity.
    + intros x ip. unfold soe_pre, delete_slice, s1. st_simpl. cbn [s_eps s_svc].
      rewrite delete_fold, get_del.
      destruct (x =? sid) eqn:E; cbn [andb].
      * apply N.eqb_eq in E. subst x. specialize (HD sid ip). rewrite G in HD. cbn [s_eps] in HD. rewrite HD.
        destruct (reg_at (sp s) es0 ip) eqn:R; [|reflexivity]. rewrite (reg_addr _ _ _ R). reflexivity.
      * rewrite andb_true_r. apply HD.
    + intros x k. unfold soe_pre, delete_slice, s1. st_simpl. cbn [s_eps s_svc].
      rewrite cache_del_get, get_del.
      destruct (x =? sid) eqn:E.
      * apply N.eqb_eq in E. subst x. rewrite andb_true_r. destruct (k =? h0) eqn:E2; [reflexivity|].
        rewrite (HE sid k), G, (N.eqb_sym h0 k), E2. reflexivity.
      * rewrite andb_false_r. apply HE.
  - (* delete of a slice that does not exist *)
    unfold settle. st_simpl. rewrite Hq. cbn [app].
    constructor; st_simpl; try assumption; try reflexivity.
Qed.
