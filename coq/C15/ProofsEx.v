(* C15 — the hypotheses of the immediate-delivery theorem are satisfiable by an interesting schedule. *)
From Coq Require Import List NArith Bool.
From V Require Import C15.Model C15.Proofs C15.ProofsMap C15.ProofsImm1 C15.ProofsImm5 C15.ProofsImm8.
Import ListNotations.
Open Scope N_scope.

(* endpoint seen before its pod, readiness flip, endpoint removed, pod deleted, IP reused by a new pod *)
Definition good_example : list op :=
  [WSv 0 (Some (Svc false false [0]));
   WSl 0 (Some (Slice 0 1 [Ep 1 (Some 0) 0]));
   WPod 0 (Some (Pod 1 true false 0 1));
   WPod 0 (Some (Pod 1 false false 0 1));
   WSl 0 (Some (Slice 0 1 []));
   WPod 0 None;
   WSl 0 (Some (Slice 0 1 [Ep 1 (Some 1) 0]));
   WPod 1 (Some (Pod 1 true false 0 2))].

Lemma good_example_good : good_run st0 good_example.
Proof.
  unfold good_example. cbn [good_run].
  repeat match goal with |- _ /\ _ => split end; vm_compute.
  - reflexivity.
  - split; [reflexivity|exact I].
  - split; [reflexivity|]. intros x x0 x1 x2 x3 x4 Hg Hin. destruct x; [|discriminate].
    injection Hg as <- <- <-. destruct Hin as [Hin|[]]. injection Hin as <-. reflexivity.
  - split; [reflexivity|]. split; [reflexivity|]. right. right. reflexivity.
  - split; [reflexivity|]. split; [reflexivity|]. intros. contradiction.
  - intros x x0 x1 x2 Hg. destruct x; [|discriminate]. injection Hg as <- <- <-. reflexivity.
  - split; [reflexivity|]. split; [reflexivity|]. intros. contradiction.
  - split; [reflexivity|]. intros x x0 x1 x2 x3 x4 Hg Hin. destruct x; [|discriminate].
    injection Hg as <- <- <-. destruct Hin as [Hin|[]]. injection Hin as <-. reflexivity.
  - exact I.
Qed.
