(* C15 — [derive] (the cold-start result) satisfies the same pointwise specification as the invariant of
   immediate-delivery runs: hence such runs end in derive(final objects). *)
From Coq Require Import List NArith Bool Lia.
From V Require Import C15.Model C15.Proofs C15.ProofsMap C15.ProofsIdx C15.ProofsImm1 C15.ProofsImm2 C15.ProofsImm3
  C15.ProofsImm4 C15.ProofsImm5 C15.ProofsImm6 C15.ProofsImm7 C15.ProofsImm8.
Import ListNotations.
Open Scope N_scope.

(* ------------------------------------------------------------------ sorted maps (strictly increasing keys) *)
Fixpoint sorted {A} (m : map A) : Prop :=
  match m with
  | [] => True
  | (k, _) :: m' => (forall k', In k' (List.map fst m') -> k < k') /\ sorted m'
  end.

Lemma keys_upd {A} k (v : A) m k' : In k' (List.map fst (upd k v m)) -> k' = k \/ In k' (List.map fst m).
Proof.
  induction m as [|[k2 v2] m IH]; cbn [upd List.map fst In].
  - intros [H|[]]. left. symmetry. exact H.
  - destruct (k =? k2) eqn:E.
    + apply N.eqb_eq in E. subst k2. cbn [List.map fst In]. intros [H|H]; [left; symmetry; exact H|right; right; exact H].
    + destruct (k <? k2); cbn [List.map fst In].
      * intros [H|[H|H]]; [left; symmetry; exact H|right; left; exact H|right; right; exact H].
      * intros [H|H]; [right; left; exact H|]. destruct (IH H) as [H'|H']; [left; exact H'|right; right; exact H'].
Qed.

Lemma sorted_upd {A} k (v : A) m : sorted m -> sorted (upd k v m).
Proof.
  induction m as [|[k2 v2] m IH]; cbn [upd sorted]; [intros _; split; [intros k' []|exact I]|].
  intros [Hlt Hs]. destruct (k =? k2) eqn:E.
  - apply N.eqb_eq in E. subst k2. cbn [sorted]. split; assumption.
  - destruct (k <? k2) eqn:L.
    + apply N.ltb_lt in L. cbn [sorted List.map fst In]. split; [|split; assumption].
      intros k' [H|H]; [subst k'; exact L|]. specialize (Hlt k' H). lia.
    + apply N.ltb_ge in L. apply N.eqb_neq in E. cbn [sorted]. split; [|apply IH; exact Hs].
      intros k' H. destruct (keys_upd k v m k' H) as [->|H']; [lia|apply Hlt; exact H'].
Qed.

Lemma keys_del {A} k (m : map A) k' : In k' (List.map fst (del k m)) -> In k' (List.map fst m).
Proof.
  induction m as [|[k2 v2] m IH]; cbn [del List.map fst In]; [intros []|].
  destruct (k =? k2); cbn [List.map fst In]; [intros H; right; apply IH; exact H|].
  intros [H|H]; [left; exact H|right; apply IH; exact H].
Qed.

Lemma sorted_del {A} k (m : map A) : sorted m -> sorted (del k m).
Proof.
  induction m as [|[k2 v2] m IH]; cbn [del sorted]; [trivial|]. intros [Hlt Hs].
  destruct (k =? k2); [apply IH; exact Hs|]. cbn [sorted]. split; [|apply IH; exact Hs].
  intros k' H. apply Hlt. apply (keys_del k m k' H).
Qed.

Lemma get_key {A} k (m : map A) v : get k m = Some v -> In k (List.map fst m).
Proof.
  induction m as [|[k2 v2] m IH]; cbn [get List.map fst In]; [discriminate|].
  destruct (k =? k2) eqn:E; [intros _; left; symmetry; apply N.eqb_eq; exact E|intros H; right; apply IH; exact H].
Qed.

Lemma sorted_head_absent {A} k (v : A) m : sorted ((k, v) :: m) -> get k m = None.
Proof.
  cbn [sorted]. intros [Hlt _]. destruct (get k m) eqn:G; [|reflexivity].
  pose proof (Hlt k (get_key k m a G)). lia.
Qed.

(* folds over a sorted store, read pointwise *)
Lemma existsb_get {A} (P : A -> bool) id (m : map A) : sorted m ->
  existsb (fun kv => (fst kv =? id) && P (snd kv)) m = match get id m with Some p => P p | None => false end.
Proof.
  induction m as [|[k v] m IH]; [reflexivity|]. intros Hs. pose proof (sorted_head_absent k v m Hs) as Hn.
  destruct Hs as [_ Hs]. cbn [existsb get fst snd]. rewrite (IH Hs), (N.eqb_sym k id).
  destruct (id =? k) eqn:E; [|reflexivity]. apply N.eqb_eq in E. subst k. rewrite Hn. apply orb_false_r.
Qed.

(* ------------------------------------------------------------------ derive, pointwise *)
Lemma d_byip_fold (m : map podv) : forall acc id ip,
  smem id (getd [] ip (fold_left (fun a kv => if elig (snd kv) then madd (p_ip (snd kv)) (fst kv) a else a) m acc)) =
  smem id (getd [] ip acc) || existsb (fun kv => (fst kv =? id) && (elig (snd kv) && (p_ip (snd kv) =? ip))) m.
Proof.
  induction m as [|[k p] m IH]; intros acc id ip; cbn [fold_left existsb fst snd]; [rewrite orb_false_r; reflexivity|].
  rewrite IH. destruct (elig p) eqn:E; cbn [andb].
  - rewrite smem_madd, (N.eqb_sym (p_ip p) ip). destruct (ip =? p_ip p) eqn:E1.
    + apply N.eqb_eq in E1. subst ip. rewrite (N.eqb_sym k id).
      destruct (id =? k), (smem id (getd [] (p_ip p) acc)), (existsb _ m); reflexivity.
    + rewrite andb_false_r. reflexivity.
  - rewrite andb_false_r. reflexivity.
Qed.

Lemma d_byip_spec sp id ip : sorted sp ->
  smem id (getd [] ip (d_byip sp)) = match get id sp with Some p => elig p && (p_ip p =? ip) | None => false end.
Proof. intros Hs. unfold d_byip. rewrite d_byip_fold. cbn [getd get smem orb]. apply (existsb_get (fun p => elig p && (p_ip p =? ip)) id sp Hs). Qed.

Lemma d_ipby_fold (m : map podv) : sorted m -> forall acc id,
  get id (fold_left (fun a kv => if elig (snd kv) then upd (fst kv) (p_ip (snd kv)) a else a) m acc) =
  match get id m with Some p => if elig p then Some (p_ip p) else get id acc | None => get id acc end.
Proof.
  induction m as [|[k p] m IH]; intros Hs acc id; [reflexivity|].
  pose proof (sorted_head_absent k p m Hs) as Hn. destruct Hs as [_ Hs].
  cbn [fold_left get fst snd]. rewrite (IH Hs). destruct (id =? k) eqn:E.
  - apply N.eqb_eq in E. subst k. rewrite Hn. destruct (elig p); [apply get_upd_eq|reflexivity].
  - assert (Ha : get id (if elig p then upd k (p_ip p) acc else acc) = get id acc).
    { destruct (elig p); [|reflexivity]. rewrite get_upd, E. reflexivity. }
    rewrite Ha. reflexivity.
Qed.

Lemma d_ipby_spec sp id : sorted sp ->
  get id (d_ipby sp) = match get id sp with Some p => if elig p then Some (p_ip p) else None | None => None end.
Proof. intros Hs. unfold d_ipby. rewrite (d_ipby_fold sp Hs). destruct (get id sp) as [p|]; [destruct (elig p)|]; reflexivity. Qed.

Lemma d_slice_rsy_spec sp sid es : forall r x ip,
  smem x (getd [] ip (d_slice_rsy sp sid es r)) = smem x (getd [] ip r) || ((x =? sid) && reg_at sp es ip).
Proof.
  induction es as [|[ip' [pid|] c] es IH]; intros r x ip; cbn [d_slice_rsy reg_at existsb].
  - rewrite andb_false_r, orb_false_r. reflexivity.
  - rewrite IH. fold (reg_at sp es ip). destruct (get pid sp) eqn:G; cbn [is_none].
    + rewrite andb_false_r. cbn [orb]. reflexivity.
    + rewrite smem_madd, andb_true_r, (N.eqb_sym ip' ip). destruct (ip =? ip') eqn:E; cbn [orb].
      * apply N.eqb_eq in E. subst ip'. destruct (x =? sid), (smem x (getd [] ip r)), (reg_at sp es ip); reflexivity.
      * reflexivity.
  - rewrite IH. fold (reg_at sp es ip). cbn [orb]. reflexivity.
Qed.

Lemma d_rsy_fold sp (m : map slicev) : forall acc x ip,
  smem x (getd [] ip (fold_left (fun r kv => d_slice_rsy sp (fst kv) (s_eps (snd kv)) r) m acc)) =
  smem x (getd [] ip acc) || existsb (fun kv => (fst kv =? x) && reg_at sp (s_eps (snd kv)) ip) m.
Proof.
  induction m as [|[k v] m IH]; intros acc x ip; cbn [fold_left existsb fst snd]; [rewrite orb_false_r; reflexivity|].
  rewrite IH, d_slice_rsy_spec, (N.eqb_sym k x). rewrite orb_assoc. reflexivity.
Qed.

Lemma d_rsy_spec sp se x ip : sorted se ->
  smem x (getd [] ip (d_rsy sp se)) = match get x se with Some v => reg_at sp (s_eps v) ip | None => false end.
Proof. intros Hs. unfold d_rsy. rewrite d_rsy_fold. cbn [getd get smem orb]. apply (existsb_get (fun v => reg_at sp (s_eps v) ip) x se Hs). Qed.

Lemma d_cache_fold sp ss (b : map (list N)) (m : map slicev) : sorted m -> forall acc x k,
  get x (getd [] k (fold_left (fun c kv => match snd kv with Slice h np es =>
      upd h (upd (fst kv) (d_slice_eps sp b (get h ss) np es) (getd [] h c)) c end) m acc)) =
  match get x m with
  | Some (Slice h np es) => if h =? k then Some (d_slice_eps sp b (get k ss) np es) else get x (getd [] k acc)
  | None => get x (getd [] k acc)
  end.
Proof.
  induction m as [|[sid [h np es]] m IH]; intros Hs acc x k; [reflexivity|].
  pose proof (sorted_head_absent _ _ m Hs) as Hn. destruct Hs as [_ Hs].
  cbn [fold_left get fst snd]. rewrite (IH Hs), cache_upd_get. destruct (x =? sid) eqn:E.
  - apply N.eqb_eq in E. subst sid. rewrite Hn, andb_true_r, (N.eqb_sym h k). destruct (k =? h) eqn:E2; [|reflexivity].
    apply N.eqb_eq in E2. subst k. reflexivity.
  - rewrite andb_false_r. reflexivity.
Qed.

Lemma d_cache_spec sp se ss x k : sorted se ->
  get x (getd [] k (d_cache sp se ss)) =
  match get x se with
  | Some (Slice h np es) => if h =? k then Some (d_slice_eps sp (d_byip sp) (get k ss) np es) else None
  | None => None end.
Proof. intros Hs. unfold d_cache. rewrite (d_cache_fold sp ss (d_byip sp) se Hs). reflexivity. Qed.

(* ------------------------------------------------------------------ the stores of any run are sorted *)
Definition stores_sorted (s : st) := sorted (sp s) /\ sorted (se s) /\ sorted (ss s).

Lemma write_sorted {A} mk id (v : option A) m : sorted m -> sorted (fst (write mk id v m)).
Proof. intros Hs. unfold write. destruct v, (get id m); cbn [fst]; try apply sorted_upd; try apply sorted_del; exact Hs. Qed.

Definition st3 (s : st) := (sp s, se s, ss s).

Lemma st3_update_cache s sid sl : st3 (update_cache_for_slice s sid sl) = st3 s.
Proof. destruct sl as [h np es]. unfold update_cache_for_slice. destruct (build_slice _ _ _ _ _ _ _). reflexivity. Qed.
Lemma st3_eds s h l : st3 (eds_update s h l) = st3 s.
Proof. unfold eds_update. destruct l; [destruct (get h (shards s)) as [[? ? ?]|]|]; reflexivity. Qed.
Lemma st3_fold_update sls : forall s,
  st3 (fold_left (fun a (kv : N * slicev) => update_cache_for_slice a (fst kv) (snd kv)) sls s) = st3 s.
Proof. induction sls as [|kv sls IH]; intros s; cbn [fold_left]; [reflexivity|]. rewrite IH. apply st3_update_cache. Qed.

Lemma st3_recompute s p : st3 (recompute_service_for_pod s p) = st3 s.
Proof.
  unfold recompute_service_for_pod.
  destruct (get (p_lbl p) (ss s)); [|reflexivity].
  destruct (get (p_lbl p) (smap s)); [|reflexivity].
  destruct (slices_of s (p_lbl p)) as [|kv sls] eqn:E; [reflexivity|].
  set (s' := fold_left _ _ s). assert (Hs : st3 s' = st3 s) by apply st3_fold_update.
  destruct (cache_get s' (p_lbl p)); unfold st3 in *; st_simpl; [exact Hs|].
  change (st3 (eds_update s' (p_lbl p) (e :: l)) = st3 s). rewrite st3_eds. exact Hs.
Qed.

Lemma st3_delete_ip s ip id : st3 (delete_ip s ip id) = st3 s.
Proof. unfold delete_ip. destruct (smem id _); reflexivity. Qed.

Lemma st3_add_pod s p ip id lu l : st3 (add_pod s p ip id lu l) = st3 s.
Proof.
  unfold add_pod. destruct (smem id _).
  - destruct lu; [apply st3_recompute|reflexivity].
  - st_simpl. destruct (get ip (rsy s)); [destruct (is_perm l l0); reflexivity|destruct l; reflexivity].
Qed.

Lemma st3_pod_on_event s id e old p l : st3 (pod_on_event s id e old p l) = st3 s.
Proof.
  unfold pod_on_event. destruct (_ =? 0); [reflexivity|].
  destruct e; [destruct (elig p); [apply st3_add_pod|reflexivity]|destruct (negb (elig p)); [apply st3_delete_ip|apply st3_add_pod]|apply st3_delete_ip].
Qed.

Lemma st3_soe s sid e old cur : st3 (slice_on_event s sid e old cur) = st3 s.
Proof. pose proof (fr_soe s sid e old cur) as H. unfold fr in H. unfold st3. congruence. Qed.

Lemma st3_svc s id e cur : st3 (svc_on_event s id e cur) = st3 s.
Proof.
  unfold svc_on_event. destruct e; try reflexivity;
  (set (s1 := set_smap _ s); destruct (slices_of s1 id); [reflexivity|];
   destruct (cache_get s1 id); [reflexivity|]; rewrite st3_eds; reflexivity).
Qed.

Lemma st3_run_task s t l : st3 (run_task s t l) = st3 s.
Proof.
  destruct t as [id e old cur|id e old cur|id e old cur|sid]; cbn [run_task].
  - destruct e; [destruct (get id (sp s))|destruct (get id (sp s))|]; try reflexivity; apply st3_pod_on_event.
  - destruct e; [destruct (get id (se s))|destruct (get id (se s))|]; try reflexivity; apply st3_soe.
  - destruct e; [destruct (get id (ss s))|destruct (get id (ss s))|]; try reflexivity; apply st3_svc.
  - destruct (get sid (se s)); [apply st3_soe|reflexivity].
Qed.

Lemma sorted_step s o : stores_sorted s -> stores_sorted (step s o).
Proof.
  intros (H1 & H2 & H3). destruct o as [id v|id v|id v|l]; cbn [step].
  - pose proof (write_sorted TPod id v (sp s) H1) as W. destruct (write TPod id v (sp s)). repeat split; assumption.
  - pose proof (write_sorted TSl id v (se s) H2) as W. destruct (write TSl id v (se s)). repeat split; assumption.
  - pose proof (write_sorted TSv id v (ss s) H3) as W. destruct (write TSv id v (ss s)). repeat split; assumption.
  - destruct (q s) as [|t rest]; [repeat split; assumption|].
    pose proof (st3_run_task (set_q rest s) t l) as E. unfold st3 in E. st_simpl. injection E as E1 E2 E3.
    unfold stores_sorted. rewrite E1, E2, E3. repeat split; assumption.
Qed.

Theorem sorted_run : forall ops, stores_sorted (run ops st0).
Proof.
  intros ops. unfold run. assert (H0 : stores_sorted st0) by (repeat split; exact I). revert H0. generalize st0.
  induction ops as [|o ops IH]; intros s Hs; cbn [fold_left]; [exact Hs|]. apply IH. apply sorted_step. exact Hs.
Qed.

(* ------------------------------------------------------------------ immediate-delivery runs end in derive(final objects) *)
Definition reg_equiv_derive (a : st) : Prop :=
  let d := derive (sp a) (se a) (ss a) in
  reg_equiv a d /\ forall h, shard_cands a h = (if exn a h then [] else cache_get a h) /\
                             (shard_cands a h <> [] -> shard_sas a h = sas_of (dedup [] (shard_cands a h))).

Theorem imm_equals_derive ws : good_run st0 ws ->
  let a := run (imm_ops st0 ws) st0 in
  q a = [] /\ bad a = false /\ reg_equiv_derive a.
Proof.
  intros Hg. cbv zeta. pose proof (sorted_run (imm_ops st0 ws)) as (S1 & S2 & S3).
  rewrite run_imm_ops in *. pose proof (inv_imm_run ws st0 inv_st0 Hg) as HI.
  destruct HI as [Hq Hb HA HB HC HG HD HE HF].
  split; [exact Hq|]. split; [exact Hb|]. split; [|exact HF].
  set (a := imm_run ws st0) in *. unfold derive. repeat split; st_simpl.
  - intros id ip. rewrite (HA id ip), (d_byip_spec _ id ip S1). reflexivity.
  - intros id. rewrite (HB id), (d_ipby_spec _ id S1). reflexivity.
  - intros sid ip. rewrite (HD sid ip), (d_rsy_spec _ _ sid ip S2). reflexivity.
  - intros h sid. rewrite (HE sid h), (d_cache_spec _ _ _ sid h S2).
    destruct (get sid (se a)) as [[h' np es]|] eqn:G; [|reflexivity].
    destruct (h' =? h); [|reflexivity].
    rewrite (d_slice_eps_byip (sp a) [] (d_byip (sp a)) _ np es (HG _ _ _ _ G)). reflexivity.
  - intros h. apply HC.
Qed.
