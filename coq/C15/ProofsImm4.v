(* C15 — confluence for immediate-delivery schedules, part 4: re-queued slices are rebuilt until all are consistent. *)
From Coq Require Import List NArith Bool Lia.
From V Require Import C15.Model C15.Proofs C15.ProofsMap C15.ProofsIdx C15.ProofsImm1 C15.ProofsImm2 C15.ProofsImm3.
Import ListNotations.
Open Scope N_scope.

(* what must hold of a slice that still waits in the queue: its registrations are not stale and it is
   cached under its own service only *)
Definition pend (s : st) (sid : N) : Prop :=
  exists h np es, get sid (se s) = Some (Slice h np es) /\
    (forall ip, smem sid (getd [] ip (rsy s)) = true -> reg_at (sp s) es ip = true) /\
    (forall h', h' <> h -> get sid (getd [] h' (cache s)) = None).

Lemma fr_fields s s' : fr s' = fr s ->
  sp s' = sp s /\ se s' = se s /\ ss s' = ss s /\ byip s' = byip s /\ ipby s' = ipby s /\ smap s' = smap s /\
  q s' = q s /\ bad s' = bad s.
Proof. unfold fr. intros H. injection H as -> -> -> -> -> -> -> ->. repeat split. Qed.

(* rebuilding one slice from the current stores (podArrived) *)
Lemma rebuild_ok s sid h np es :
  specC s -> specG s -> get sid (se s) = Some (Slice h np es) ->
  (forall ip, smem sid (getd [] ip (rsy s)) = true -> reg_at (sp s) es ip = true) ->
  (forall h', h' <> h -> get sid (getd [] h' (cache s)) = None) ->
  let s' := slice_on_event s sid Add None (Slice h np es) in
  fr s' = fr s /\ Dsid s' sid /\ Esid s' sid /\
  (forall x, x <> sid -> (forall ip, smem x (getd [] ip (rsy s')) = smem x (getd [] ip (rsy s))) /\
                         (forall h', get x (getd [] h' (cache s')) = get x (getd [] h' (cache s)))).
Proof.
  intros HC HG Hg P1 P2. cbv zeta. set (s' := slice_on_event s sid Add None (Slice h np es)).
  assert (Hfr : fr s' = fr s) by apply fr_soe.
  destruct (fr_fields _ _ Hfr) as (Hsp & Hse & Hss & Hbi & _ & Hsm & _ & _).
  destruct (rc_soe s sid Add None (Slice h np es)) as [Hr Hc]. fold s' in Hr, Hc.
  unfold soe_pre in Hr, Hc.
  destruct (ucs_fields s sid h np es) as [Ur Uc]. cbv zeta in Ur, Uc.
  split; [exact Hfr|]. split; [|split].
  - intros ip. rewrite Hr, Ur, Hse, Hg, Hsp, N.eqb_refl. cbn [andb s_eps].
    destruct (smem sid (getd [] ip (rsy s))) eqn:S; [rewrite (P1 ip S); reflexivity|reflexivity].
  - intros h'. rewrite Hc, Uc, Hse, Hg, Hsp, Hss, N.eqb_refl, andb_true_r.
    rewrite (N.eqb_sym h h'). destruct (h' =? h) eqn:E.
    + apply N.eqb_eq in E. subst h'. rewrite HC.
      rewrite (d_slice_eps_byip (sp s) (byip s) [] _ np es (HG _ _ _ _ Hg)). reflexivity.
    + apply P2. apply N.eqb_neq. exact E.
  - intros x Hx. assert (E : x =? sid = false) by (apply N.eqb_neq; exact Hx). split.
    + intros ip. rewrite Hr, Ur, E. cbn [andb]. apply orb_false_r.
    + intros h'. rewrite Hc, Uc, E, andb_false_r. reflexivity.
Qed.

Record Mid (s : st) (rem : list N) : Prop := {
  m_q : q s = List.map TReq rem; m_bad : bad s = false;
  m_A : specA s; m_B : specB s; m_C : specC s; m_G : specG s; m_F : specF s;
  m_ok : forall sid, In sid rem \/ (Dsid s sid /\ Esid s sid);
  m_pend : forall sid, In sid rem -> pend s sid }.

Lemma mid_done s : Mid s [] -> Inv s.
Proof.
  intros [Hq Hb HA HB HC HG HF Hok _]. constructor; try assumption.
  - intros sid. destruct (Hok sid) as [[]|[H _]]. exact H.
  - intros sid. destruct (Hok sid) as [[]|[_ H]]. exact H.
Qed.

Lemma mid_step s sid rem : Mid s (sid :: rem) -> Mid (step s (H [])) rem.
Proof.
  intros [Hq Hb HA HB HC HG HF Hok Hpend].
  cbn [step]. rewrite Hq. cbn [List.map]. cbn [run_task].
  set (s0 := set_q (List.map TReq rem) s).
  destruct (Hpend sid (or_introl eq_refl)) as (h & np & es & Hg & P1 & P2).
  change (get sid (se s0)) with (get sid (se s)). rewrite Hg.
  destruct (rebuild_ok s0 sid h np es HC HG Hg P1 P2) as (Hfr & HD & HE & Hoth).
  set (s' := slice_on_event s0 sid Add None (Slice h np es)) in *.
  destruct (fr_fields _ _ Hfr) as (Hsp & Hse & Hss & Hbi & Hib & Hsm & Hq' & Hb').
  unfold s0 in Hsp, Hse, Hss, Hbi, Hib, Hsm, Hq', Hb'. st_simpl.
  constructor.
  - rewrite Hq'. reflexivity.
  - rewrite Hb'. exact Hb.
  - intros id ip. rewrite Hbi, Hsp. apply HA.
  - intros id. rewrite Hib, Hsp. apply HB.
  - intros k. rewrite Hsm, Hss. apply HC.
  - intros x k np' es'. rewrite Hse. apply HG.
  - apply F_soe. exact HF.
  - intros x. destruct (N.eq_dec x sid) as [->|Hx]; [right; split; assumption|].
    destruct (Hok x) as [[Heq|Hin]|[HDx HEx]]; [congruence|left; exact Hin|right].
    destruct (Hoth x Hx) as [Or Oc]. split.
    + intros ip. rewrite Or, Hse, Hsp. apply HDx.
    + intros k. rewrite Oc, Hse, Hsp, Hss. apply HEx.
  - intros x Hin. destruct (N.eq_dec x sid) as [->|Hx].
    + exists h, np, es. rewrite Hse. split; [exact Hg|]. split.
      * intros ip Hs. rewrite (HD ip), Hse, Hg in Hs. exact Hs.
      * intros k Hk. rewrite (HE k), Hse, Hg. destruct (h =? k) eqn:E; [|reflexivity].
        apply N.eqb_eq in E. congruence.
    + destruct (Hpend x (or_intror Hin)) as (hx & npx & esx & Hgx & P1x & P2x).
      destruct (Hoth x Hx) as [Or Oc].
      exists hx, npx, esx. rewrite Hse, Hsp. split; [exact Hgx|]. split.
      * intros ip. rewrite Or. apply P1x.
      * intros k Hk. rewrite Oc. apply P2x. exact Hk.
Qed.

Lemma mid_fold rem : forall s, Mid s rem -> Inv (fold_left (fun a (_ : N) => step a (H [])) rem s).
Proof.
  induction rem as [|sid rem IH]; intros s HM; cbn [fold_left]; [apply mid_done; exact HM|].
  apply IH. exact (mid_step s sid rem HM).
Qed.
