(* C15 — confluence for immediate-delivery schedules, part 1: the conversion of one slice. *)
From Coq Require Import List NArith Bool Lia.
From V Require Import C15.Model C15.ProofsMap C15.ProofsIdx.
Import ListNotations.
Open Scope N_scope.

Definition is_none {A} (o : option A) : bool := match o with None => true | Some _ => false end.

(* the slice has an endpoint at [ip] whose expected pod is missing from the pod store *)
Definition reg_at (sp : map podv) (es : list epv) (ip : N) : bool :=
  existsb (fun e => match e with Ep ip' (Some pid) _ => (ip' =? ip) && is_none (get pid sp) | _ => false end) es.
Definition refs (id : N) (es : list epv) : bool :=
  existsb (fun e => match e with Ep _ (Some p) _ => p =? id | _ => false end) es.
Definition all_ref (es : list epv) : bool :=
  forallb (fun e => match e with Ep _ (Some _) _ => true | _ => false end) es.
Definition addr_in (es : list epv) (ip : N) : bool := existsb (fun e => e_ip e =? ip) es.

(* ---- build_slice = (registrations, conversion) *)
Lemma build_slice_snd sp byip svc sid np es : forall r,
  snd (build_slice sp byip svc sid np es r) = d_slice_eps sp byip svc np es.
Proof.
  induction es as [|[ip [pid|] c] es IH]; intros r; cbn [build_slice d_slice_eps]; [reflexivity| |].
  - destruct (get pid sp); [|apply IH].
    specialize (IH r). destruct (build_slice sp byip svc sid np es r). cbn [snd] in *. rewrite IH. reflexivity.
  - specialize (IH r). destruct (build_slice sp byip svc sid np es r). cbn [snd] in *. rewrite IH. reflexivity.
Qed.

Lemma build_slice_fst sp byip svc sid np es : forall r x ip,
  smem x (getd [] ip (fst (build_slice sp byip svc sid np es r))) =
  smem x (getd [] ip r) || ((x =? sid) && reg_at sp es ip).
Proof.
  induction es as [|[ip' [pid|] c] es IH]; intros r x ip; cbn [build_slice reg_at existsb].
  - cbn [fst]. rewrite andb_false_r, orb_false_r. reflexivity.
  - destruct (get pid sp) eqn:G; cbn [is_none].
    + specialize (IH r x ip). destruct (build_slice sp byip svc sid np es r). cbn [fst] in *.
      rewrite IH. rewrite andb_false_r. cbn [orb]. reflexivity.
    + rewrite IH, smem_madd. rewrite andb_true_r. unfold reg_at.
      destruct (ip =? ip') eqn:E.
      * rewrite (N.eqb_sym ip' ip), E. cbn [orb]. destruct (x =? sid); cbn [andb orb];
          destruct (smem x (getd [] ip' r)) eqn:S; apply N.eqb_eq in E; subst ip'; rewrite ?S; cbn; try reflexivity.
      * rewrite (N.eqb_sym ip' ip), E. cbn [orb]. reflexivity.
  - specialize (IH r x ip). destruct (build_slice sp byip svc sid np es r). cbn [fst] in *. exact IH.
Qed.

(* with targetRefs everywhere the IP index is not consulted *)
Lemma d_slice_eps_byip sp b1 b2 svc np es : all_ref es = true ->
  d_slice_eps sp b1 svc np es = d_slice_eps sp b2 svc np es.
Proof.
  induction es as [|[ip [pid|] c] es IH]; cbn [all_ref forallb d_slice_eps]; intros H; [reflexivity| |discriminate].
  rewrite (IH H). reflexivity.
Qed.

(* ---- how a change of the pod store affects a slice *)
Definition same_meta (a b : option podv) : Prop :=
  match a, b with
  | Some x, Some y => p_sa x = p_sa y /\ p_lbl x = p_lbl y
  | None, None => True
  | _, _ => False
  end.

Lemma build_eps_meta ip np h (a b : podv) : p_sa a = p_sa b -> p_lbl a = p_lbl b ->
  build_eps ip np (Some a) h = build_eps ip np (Some b) h.
Proof. intros H1 H2. unfold build_eps. rewrite H1, H2. reflexivity. Qed.

(* the stores agree (presence, service account, label) on every pod the slice references *)
Lemma conv_agree sp sp' byip svc np es :
  (forall pid, refs pid es = true -> same_meta (get pid sp) (get pid sp')) ->
  all_ref es = true ->
  d_slice_eps sp byip svc np es = d_slice_eps sp' byip svc np es /\
  forall ip, reg_at sp es ip = reg_at sp' es ip.
Proof.
  induction es as [|[ip0 [pid|] c] es IH]; cbn [all_ref forallb]; intros Hag Har; [split; reflexivity| |discriminate].
  assert (Hag' : forall pid0, refs pid0 es = true -> same_meta (get pid0 sp) (get pid0 sp')).
  { intros pid0 H. apply Hag. cbn [refs existsb]. fold (refs pid0 es). rewrite H. apply orb_true_r. }
  destruct (IH Hag' Har) as [IH1 IH2].
  assert (Hp : same_meta (get pid sp) (get pid sp')).
  { apply Hag. cbn [refs existsb]. rewrite N.eqb_refl. reflexivity. }
  split.
  - cbn [d_slice_eps]. unfold same_meta in Hp. destruct (get pid sp) as [a|], (get pid sp') as [b|]; try contradiction.
    + destruct Hp as [H1 H2]. rewrite (build_eps_meta ip0 np _ a b H1 H2), IH1. reflexivity.
    + exact IH1.
  - intros ip. cbn [reg_at existsb]. fold (reg_at sp es ip). fold (reg_at sp' es ip). rewrite IH2.
    unfold same_meta in Hp. destruct (get pid sp), (get pid sp'); try contradiction; reflexivity.
Qed.

Lemma same_meta_refl o : same_meta o o.
Proof. destruct o; cbn; auto. Qed.

Lemma refs_in id es : refs id es = true -> exists ip c, In (Ep ip (Some id) c) es.
Proof.
  induction es as [|[ip [pid|] c] es IH]; cbn [refs existsb]; [discriminate| |].
  - destruct (pid =? id) eqn:E.
    + intros _. apply N.eqb_eq in E. subst. exists ip, c. left. reflexivity.
    + cbn [orb]. intros H. destruct (IH H) as [ip' [c' Hin]]. exists ip', c'. right. exact Hin.
  - cbn [orb]. intros H. destruct (IH H) as [ip' [c' Hin]]. exists ip', c'. right. exact Hin.
Qed.

Lemma in_refs id ip c es : In (Ep ip (Some id) c) es -> refs id es = true.
Proof.
  induction es as [|e es IH]; [intros []|]. intros [->|H]; cbn [refs existsb].
  - rewrite N.eqb_refl. reflexivity.
  - fold (refs id es). rewrite (IH H). apply orb_true_r.
Qed.

Lemma reg_at_in sp es ip : reg_at sp es ip = true <-> exists pid c, In (Ep ip (Some pid) c) es /\ get pid sp = None.
Proof.
  unfold reg_at. rewrite existsb_exists. split.
  - intros [[ip' [pid|] c] [Hin H]]; [|discriminate]. apply andb_true_iff in H. destruct H as [H1 H2].
    apply N.eqb_eq in H1. subst ip'. exists pid, c. split; [exact Hin|]. destruct (get pid sp); [discriminate|reflexivity].
  - intros [pid [c [Hin G]]]. exists (Ep ip (Some pid) c). split; [exact Hin|]. rewrite N.eqb_refl, G. reflexivity.
Qed.

Lemma addr_in_in es ip : addr_in es ip = true <-> exists r c, In (Ep ip r c) es.
Proof.
  unfold addr_in. rewrite existsb_exists. split.
  - intros [[ip' r c] [Hin H]]. cbn [e_ip] in H. apply N.eqb_eq in H. subst. exists r, c. exact Hin.
  - intros [r [c Hin]]. exists (Ep ip r c). split; [exact Hin|]. cbn [e_ip]. apply N.eqb_refl.
Qed.

Lemma all_ref_in es ip r c : all_ref es = true -> In (Ep ip r c) es -> exists pid, r = Some pid.
Proof.
  unfold all_ref. rewrite forallb_forall. intros H Hin. specialize (H _ Hin). destruct r as [pid|]; [exists pid; reflexivity|discriminate].
Qed.

Lemma smem_in x l : smem x l = true <-> In x l.
Proof.
  induction l as [|y l IH]; cbn [smem In]; [split; [discriminate|intros []]|].
  rewrite orb_true_iff, IH, N.eqb_eq. split; intros [H|H]; auto.
Qed.

(* ---- registrations removed by cleanupRemovedEndpoints / deleteEndpointSlice *)
Lemma cleanup_fold sid ca es : forall r x ip,
  smem x (getd [] ip (fold_left (fun r e => if smem (e_ip e) ca then r else mdel (e_ip e) sid r) es r)) =
  smem x (getd [] ip r) && negb ((x =? sid) && addr_in es ip && negb (smem ip ca)).
Proof.
  induction es as [|e es IH]; intros r x ip; cbn [fold_left addr_in existsb].
  - rewrite andb_false_r. cbn. rewrite andb_true_r. reflexivity.
  - rewrite IH. fold (addr_in es ip). destruct (smem (e_ip e) ca) eqn:S.
    + destruct (e_ip e =? ip) eqn:E; cbn [orb]; [|reflexivity].
      apply N.eqb_eq in E. subst ip. rewrite S. cbn [negb]. rewrite !andb_false_r. reflexivity.
    + rewrite smem_mdel. destruct (ip =? e_ip e) eqn:E.
      * apply N.eqb_eq in E. subst ip. rewrite N.eqb_refl, S. cbn [orb negb]. rewrite !andb_true_r.
        destruct (x =? sid), (smem x (getd [] (e_ip e) r)), (addr_in es (e_ip e)); reflexivity.
      * rewrite (N.eqb_sym (e_ip e) ip), E. cbn [orb]. reflexivity.
Qed.

Lemma delete_fold sid es : forall r x ip,
  smem x (getd [] ip (fold_left (fun r e => mdel (e_ip e) sid r) es r)) =
  smem x (getd [] ip r) && negb ((x =? sid) && addr_in es ip).
Proof.
  induction es as [|e es IH]; intros r x ip; cbn [fold_left addr_in existsb].
  - rewrite andb_false_r. cbn. rewrite andb_true_r. reflexivity.
  - rewrite IH. fold (addr_in es ip). rewrite smem_mdel. destruct (ip =? e_ip e) eqn:E.
    + apply N.eqb_eq in E. subst ip. rewrite N.eqb_refl. cbn [orb]. rewrite andb_true_r.
      destruct (x =? sid), (smem x (getd [] (e_ip e) r)), (addr_in es (e_ip e)); reflexivity.
    + rewrite (N.eqb_sym (e_ip e) ip), E. cbn [orb]. reflexivity.
Qed.
