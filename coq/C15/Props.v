(* C15 property theorems only. *)
From Coq Require Import List NArith Bool.
From V Require Import C15.Model C15.Proofs C15.ProofsCold.
Import ListNotations.
Open Scope N_scope.

(* Full statement (for every schedule, after draining, the registry equals derive(final objects)) is FALSE of
   the faithful model and of the real controller: four quiescent schedules that do not converge.
   [wit_unready] = endpoint seen before its pod and the pod arrives not ready; [wit_svc_late] = slice
   converted before its service; [wit_noref] = endpoint without targetRef before the pod event;
   [wit_sa_residue] = last endpoint removed, shard entry + service accounts stay.  The harness runs the same
   four schedules against the real code (directed scenarios 1-4 = case ids 1/2, 3/4, 5/6, 7/8). *)
Theorem C15_confluence_refuted :
  exists ops, q (run ops st0) = [] /\ converged ops = false.
Proof. exists wit_unready. split; [exact (proj1 witnesses_quiescent) | exact (proj1 not_confluent)]. Qed.
Print Assumptions C15_confluence_refuted.

Theorem C15_confluence_witnesses :
  converged wit_unready = false /\ converged wit_svc_late = false /\ converged wit_noref = false /\
  converged wit_sa_residue = false.
Proof. exact not_confluent. Qed.
Print Assumptions C15_confluence_witnesses.

(* each witness converges when the same objects are handled service, pod, slice (or when the pod arrives ready) *)
Theorem C15_witnesses_converge_in_good_order :
  converged [WSv 0 (Some (Svc false false [0])); H []; WPod 0 (Some (Pod 1 false false 0 1)); H [];
             WSl 0 (Some (Slice 0 1 [Ep 1 (Some 0) 0])); H []] = true /\
  converged [WSv 0 (Some (Svc false false [0])); H []; WPod 0 (Some (Pod 1 true false 0 1)); H [];
             WSl 0 (Some (Slice 0 1 [Ep 1 (Some 0) 2])); H []] = true /\
  converged [WSv 0 (Some (Svc false false [0])); H []; WSl 0 (Some (Slice 0 1 [Ep 1 (Some 0) 0])); H [];
             WPod 0 (Some (Pod 1 true false 0 1)); H [0]; H []] = true.
Proof. exact witnesses_good_order. Qed.
Print Assumptions C15_witnesses_converge_in_good_order.

(* Cold start (informer stores final before the queue runs), bounded-exhaustive: for all 378 clusters over one
   service, two pods, two slices and EVERY order of the initial add events in which no service event follows
   a slice event, the drained controller equals derive.  Partial: bounded domain + "services first". *)
Theorem C15_cold_start_order_independent_partial :
  forallb (fun c => forallb (fun p => implb (svc_first false p) (cold_ok c p)) (perms (adds c))) clusters = true.
Proof. exact cold_check_true. Qed.
Print Assumptions C15_cold_start_order_independent_partial.

(* ... and without "services first" it is refuted inside the same domain *)
Theorem C15_cold_start_order_independent_refuted :
  existsb (fun c => existsb (fun p => negb (cold_ok c p)) (perms (adds c))) clusters = true /\
  cold_ok wit_cluster wit_perm = false.
Proof. split; [exact cold_bad_true | exact (proj2 cold_order_dependent_witness)]. Qed.
Print Assumptions C15_cold_start_order_independent_refuted.

(* The repair mechanism, for every state: an endpoint whose expected pod is missing is skipped and its slice
   is remembered under the address ... *)
Theorem C15_missing_pod_is_remembered : forall sp byip svc sid np ip pid cond es r,
  get pid sp = None ->
  build_slice sp byip svc sid np (Ep ip (Some pid) cond :: es) r =
  build_slice sp byip svc sid np es (madd ip sid r).
Proof. exact build_slice_registers. Qed.
Print Assumptions C15_missing_pod_is_remembered.

(* ... a pod that becomes eligible under that address re-queues exactly the remembered slices ... *)
Theorem C15_eligible_pod_requeues : forall s p ip id l,
  smem id (getd [] ip (byip s)) = false -> get ip (rsy s) = Some l ->
  q (add_pod s p ip id false l) = q s ++ List.map TReq l /\ bad (add_pod s p ip id false l) = bad s.
Proof. exact add_pod_requeues. Qed.
Print Assumptions C15_eligible_pod_requeues.

(* ... the re-queued task rebuilds the slice from the informer store as it is then ... *)
Theorem C15_requeue_rebuilds_from_store : forall s sid sl,
  get sid (se s) = Some sl -> run_task s (TReq sid) [] = slice_on_event s sid Add None sl.
Proof. exact requeue_rebuilds. Qed.
Print Assumptions C15_requeue_rebuilds_from_store.

(* ... but an event of a pod that is not eligible never re-queues anything (root cause of wit_unready) *)
Theorem C15_ineligible_pod_never_requeues : forall s id e old p sp,
  elig p = false -> q (pod_on_event s id e old p sp) = q s.
Proof. exact not_eligible_never_requeues. Qed.
Print Assumptions C15_ineligible_pod_never_requeues.

Example C15_hyp_satisfiable : exists (s : st) (ip id : N) (l : list N),
  smem id (getd [] ip (byip s)) = false /\ get ip (rsy s) = Some l /\ l <> [].
Proof.
  exists (run [WSl 0 (Some (Slice 0 1 [Ep 1 (Some 0) 0])); H []] st0), 1, 0, [0].
  vm_compute. repeat split; congruence.
Qed.
