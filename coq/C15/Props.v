(* C15 property theorems only. *)
From Coq Require Import List NArith Bool.
From V Require Import C15.Model C15.Proofs C15.ProofsCold C15.ProofsMap C15.ProofsIdx C15.ProofsImm1 C15.ProofsImm2 C15.ProofsImm3
  C15.ProofsImm5 C15.ProofsImm8 C15.ProofsDerive C15.ProofsEx.
Import ListNotations.
Open Scope N_scope.

(* Full statement (for every schedule, after draining, the registry equals derive(final objects)) is FALSE of
   the faithful model and of the real controller: four quiescent schedules that do not converge.
   [wit_unready] = endpoint seen before its pod and the pod arrives not ready; [wit_svc_late] = slice
   converted before its service; [wit_noref] = endpoint without targetRef before the pod event;
   [wit_sa_residue] = last endpoint removed, shard entry + service accounts stay.  The harness runs the same
   four schedules against the real code (directed scenarios 1-4 = case ids 1/2, 3/4, 5/6, 7/8). *)
Theorem C15_confluence_refuted :
  exists ops, q (run ops st0) = [] /\ converged ops = false.
Proof. exists wit_unready. split; [exact (proj1 witnesses_quiescent) | exact (proj1 not_confluent)]. Qed.
Print Assumptions C15_confluence_refuted.

Theorem C15_confluence_witnesses :
  converged wit_unready = false /\ converged wit_svc_late = false /\ converged wit_noref = false /\
  converged wit_sa_residue = false.
Proof. exact not_confluent. Qed.
Print Assumptions C15_confluence_witnesses.

(* each witness converges when the same objects are handled service, pod, slice (or when the pod arrives ready) *)
Theorem C15_witnesses_converge_in_good_order :
  converged [WSv 0 (Some (Svc false false [0])); H []; WPod 0 (Some (Pod 1 false false 0 1)); H [];
             WSl 0 (Some (Slice 0 1 [Ep 1 (Some 0) 0])); H []] = true /\
  converged [WSv 0 (Some (Svc false false [0])); H []; WPod 0 (Some (Pod 1 true false 0 1)); H [];
             WSl 0 (Some (Slice 0 1 [Ep 1 (Some 0) 2])); H []] = true /\
  converged [WSv 0 (Some (Svc false false [0])); H []; WSl 0 (Some (Slice 0 1 [Ep 1 (Some 0) 0])); H [];
             WPod 0 (Some (Pod 1 true false 0 1)); H [0]; H []] = true.
Proof. exact witnesses_good_order. Qed.
Print Assumptions C15_witnesses_converge_in_good_order.

(* Cold start (informer stores final before the queue runs), bounded-exhaustive: for all 378 clusters over one
   service, two pods, two slices and EVERY order of the initial add events in which no service event follows
   a slice event, the drained controller equals derive.  Partial: bounded domain + "services first". *)
Theorem C15_cold_start_order_independent_partial :
  forallb (fun c => forallb (fun p => implb (svc_first false p) (cold_ok c p)) (perms (adds c))) clusters = true.
Proof. exact cold_check_true. Qed.
Print Assumptions C15_cold_start_order_independent_partial.

(* ... and without "services first" it is refuted inside the same domain *)
Theorem C15_cold_start_order_independent_refuted :
  existsb (fun c => existsb (fun p => negb (cold_ok c p)) (perms (adds c))) clusters = true /\
  cold_ok wit_cluster wit_perm = false.
Proof. split; [exact cold_bad_true | exact (proj2 cold_order_dependent_witness)]. Qed.
Print Assumptions C15_cold_start_order_independent_refuted.

(* The repair mechanism, for every state: an endpoint whose expected pod is missing is skipped and its slice
   is remembered under the address ... *)
Theorem C15_missing_pod_is_remembered : forall sp byip svc sid np ip pid cond es r,
  get pid sp = None ->
  build_slice sp byip svc sid np (Ep ip (Some pid) cond :: es) r =
  build_slice sp byip svc sid np es (madd ip sid r).
Proof. exact build_slice_registers. Qed.
Print Assumptions C15_missing_pod_is_remembered.

(* ... a pod that becomes eligible under that address re-queues exactly the remembered slices ... *)
Theorem C15_eligible_pod_requeues : forall s p ip id l,
  smem id (getd [] ip (byip s)) = false -> get ip (rsy s) = Some l ->
  q (add_pod s p ip id false l) = q s ++ List.map TReq l /\ bad (add_pod s p ip id false l) = bad s.
Proof. exact add_pod_requeues. Qed.
Print Assumptions C15_eligible_pod_requeues.

(* ... the re-queued task rebuilds the slice from the informer store as it is then ... *)
Theorem C15_requeue_rebuilds_from_store : forall s sid sl,
  get sid (se s) = Some sl -> run_task s (TReq sid) [] = slice_on_event s sid Add None sl.
Proof. exact requeue_rebuilds. Qed.
Print Assumptions C15_requeue_rebuilds_from_store.

(* ... but an event of a pod that is not eligible never re-queues anything (root cause of wit_unready) *)
Theorem C15_ineligible_pod_never_requeues : forall s id e old p sp,
  elig p = false -> q (pod_on_event s id e old p sp) = q s.
Proof. exact not_eligible_never_requeues. Qed.
Print Assumptions C15_ineligible_pod_never_requeues.

(* ------------------------------------------------------------------ unbounded theorems *)
(* PodCache: podsByIP and ipByPods are mutually inverse after EVERY schedule (any interleaving of writes and
   handler runs, any lag, any re-queue order). *)
Theorem C15_podcache_index_inverse : forall ops id ip,
  smem id (getd [] ip (byip (run ops st0))) = true <-> get id (ipby (run ops st0)) = Some ip.
Proof. exact idx_inv_all. Qed.
Print Assumptions C15_podcache_index_inverse.

(* Confluence, unbounded, for immediate-delivery schedules (the event of every write and what it re-queues are
   handled before the next write; the writes of all objects arrive in ANY order) under the hypotheses
   [good_step] that exclude the known findings:
     H1  a pod is eligible (ready, with IP) in the write in which it first appears, and slices that already
         reference it do so under that IP;
     H1a pod updates keep label and service account, and never swap a non-empty IP for another one;
     H1b a pod is deleted only when no stored slice references it;
     H2  service writes happen while no slice exists (no service event after a slice event);
     H3  every slice endpoint carries a targetRef, a slice keeps its service, and an address kept by a slice
         update keeps its pod.
   Then after every such schedule the queue is empty and PodCache, needResync, the slice cache and the services
   map equal [derive] of the final objects pointwise; needResync holds exactly the (address, slice) pairs whose
   pod is missing; the shard's endpoints are those of the slice cache, and its service accounts are those of
   its endpoints whenever it has any (the zero-endpoint residue of finding C15-shard-residue is the only part
   left out of the conclusion). *)
Theorem C15_confluence_immediate_partial : forall ws, good_run st0 ws ->
  let a := run (imm_ops st0 ws) st0 in
  q a = [] /\ bad a = false /\ reg_equiv_derive a.
Proof. exact imm_equals_derive. Qed.
Print Assumptions C15_confluence_immediate_partial.

(* the schedule really is the given writes, interleaved with handler steps *)
Theorem C15_immediate_schedule_writes : forall ws s,
  (forall w, In w ws -> match w with H _ => False | _ => True end) ->
  filter (fun o => match o with H _ => false | _ => true end) (imm_ops s ws) = ws.
Proof. exact writes_imm_ops. Qed.
Print Assumptions C15_immediate_schedule_writes.

(* order independence proper: two such schedules that end with the same objects end with the same registry *)
Theorem C15_order_independent_immediate_partial : forall ws1 ws2,
  good_run st0 ws1 -> good_run st0 ws2 ->
  let a := run (imm_ops st0 ws1) st0 in let b := run (imm_ops st0 ws2) st0 in
  sp a = sp b -> se a = se b -> ss a = ss b ->
  q a = [] /\ q b = [] /\ bad a = false /\ bad b = false /\ reg_equiv a b /\
  (forall h, shard_cands a h = (if exn a h then [] else cache_get a h)) /\
  (forall h, shard_cands b h = (if exn b h then [] else cache_get b h)).
Proof. exact confluence_immediate. Qed.
Print Assumptions C15_order_independent_immediate_partial.

(* every hypothesis is needed: immediate-delivery schedules that break exactly one of them and do not converge
   (H1: wit_unready, H1a: wit_ip_change and wit_label_unready, H1b: wit_pod_deleted, H2: wit_svc_late,
   H3: wit_noref); all are run against the real controller by the harness *)
Theorem C15_confluence_hypotheses_needed_refuted :
  converged wit_unready = false /\ converged wit_ip_change = false /\ converged wit_label_unready = false /\
  converged wit_pod_deleted = false /\ converged wit_svc_late = false /\ converged wit_noref = false.
Proof.
  destruct not_confluent as (A & B & C & _). destruct not_confluent_more as (D & E & F & _).
  repeat split; assumption.
Qed.
Print Assumptions C15_confluence_hypotheses_needed_refuted.

(* finding C15-podcache-stale-ip: the old address keeps the pod although the cold start indexes nothing *)
Theorem C15_podcache_ip_change_refuted :
  byip (run wit_ip_change st0) = [(1, [0])] /\ ipby (run wit_ip_change st0) = [(0, 1)] /\
  d_byip (sp (run wit_ip_change st0)) = [].
Proof. exact ip_change_leaves_entry. Qed.
Print Assumptions C15_podcache_ip_change_refuted.

(* finding C15-duplicate-endpoint-map-order *)
Theorem C15_duplicate_winner_order_refuted :
  let a := [E 1 0 1 1 1] in let b := [E 1 0 1 1 4] in
  dedup [] (a ++ b) <> dedup [] (b ++ a) /\ conflict (a ++ b) = true.
Proof. exact duplicate_winner_depends_on_order. Qed.
Print Assumptions C15_duplicate_winner_order_refuted.

(* the hypotheses are satisfiable by a schedule with an endpoint seen before its pod, a readiness flip, the
   endpoint's removal, the pod's deletion and IP reuse by a new pod; it converges (also by evaluation) *)
Example C15_good_run_satisfiable : good_run st0 good_example /\ converged (imm_ops st0 good_example) = true.
Proof. split; [exact good_example_good|vm_compute; reflexivity]. Qed.

Example C15_hyp_satisfiable : exists (s : st) (ip id : N) (l : list N),
  smem id (getd [] ip (byip s)) = false /\ get ip (rsy s) = Some l /\ l <> [].
Proof.
  exists (run [WSl 0 (Some (Slice 0 1 [Ep 1 (Some 0) 0])); H []] st0), 1, 0, [0].
  vm_compute. repeat split; congruence.
Qed.
