(* C15 — confluence for immediate-delivery schedules, part 7: pod writes preserve the invariant. *)
From Coq Require Import List NArith Bool Lia.
From V Require Import C15.Model C15.Proofs C15.ProofsMap C15.ProofsIdx C15.ProofsImm1 C15.ProofsImm2 C15.ProofsImm3 C15.ProofsImm4 C15.ProofsImm5.
Import ListNotations.
Open Scope N_scope.

(* ------------------------------------------------------------------ PodCache against the pod store *)
Definition A_of (sp : map podv) (byip : map (list N)) := forall id ip, smem id (getd [] ip byip) =
  match get id sp with Some p => elig p && (p_ip p =? ip) | None => false end.
Definition B_of (sp : map podv) (ipby : map N) := forall id, get id ipby =
  match get id sp with Some p => if elig p then Some (p_ip p) else None | None => None end.

Lemma elig_ip p : elig p = true -> (p_ip p =? 0) = false.
Proof. destruct p as [ip r t l a]. cbn [elig p_ip]. destruct (ip =? 0); [discriminate|reflexivity]. Qed.

Lemma pc_remove sp sp' byip ipby id ip0 :
  A_of sp byip -> B_of sp ipby -> (forall id', id' <> id -> get id' sp' = get id' sp) ->
  match get id sp' with Some p => elig p = false | None => True end ->
  (forall o, get id sp = Some o -> elig o = true -> ip0 = p_ip o) ->
  A_of sp' (if smem id (getd [] ip0 byip) then mdel ip0 id byip else byip) /\
  B_of sp' (if smem id (getd [] ip0 byip) then del id ipby else ipby).
Proof.
  intros HA HB Hoth Hnew Hip0.
  assert (Hid : forall ip', (if smem id (getd [] ip0 byip) then negb (ip' =? ip0) && smem id (getd [] ip' byip) else smem id (getd [] ip' byip)) = false).
  { intros ip'. destruct (smem id (getd [] ip0 byip)) eqn:C.
    - rewrite HA in C. destruct (get id sp) as [o|] eqn:G; [|discriminate].
      apply andb_true_iff in C. destruct C as [Ce Ci]. apply N.eqb_eq in Ci.
      destruct (ip' =? ip0) eqn:E; [reflexivity|]. cbn [negb andb]. rewrite HA, G, Ce, Ci, (N.eqb_sym ip0 ip'), E. reflexivity.
    - rewrite HA. destruct (get id sp) as [o|] eqn:G; [|reflexivity].
      destruct (elig o) eqn:Ce; [|reflexivity]. exfalso.
      rewrite HA, G, Ce, (Hip0 o eq_refl Ce), N.eqb_refl in C. discriminate. }
  split.
  - intros id' ip'. destruct (N.eq_dec id' id) as [->|Hn].
    + transitivity false.
      * specialize (Hid ip'). destruct (smem id (getd [] ip0 byip)); [|exact Hid].
        rewrite smem_mdel. destruct (ip' =? ip0) eqn:E; [rewrite N.eqb_refl; reflexivity|].
        cbn [negb andb] in Hid. exact Hid.
      * destruct (get id sp') as [p|]; [rewrite Hnew|]; reflexivity.
    + rewrite (Hoth id' Hn), <- HA. destruct (smem id (getd [] ip0 byip)); [|reflexivity].
      rewrite smem_mdel. destruct (ip' =? ip0) eqn:E; [|reflexivity].
      apply N.eqb_eq in E. subst ip'. assert (E2 : id' =? id = false) by (apply N.eqb_neq; exact Hn). rewrite E2. reflexivity.
  - intros id'. destruct (N.eq_dec id' id) as [->|Hn].
    + transitivity (@None N).
      * destruct (smem id (getd [] ip0 byip)) eqn:C; [rewrite get_del, N.eqb_refl; reflexivity|].
        rewrite HB. destruct (get id sp) as [o|] eqn:G; [|reflexivity].
        destruct (elig o) eqn:Ce; [|reflexivity]. exfalso.
        rewrite HA, G, Ce, (Hip0 o eq_refl Ce), N.eqb_refl in C. discriminate.
      * destruct (get id sp') as [p|]; [rewrite Hnew|]; reflexivity.
    + rewrite (Hoth id' Hn), <- HB. destruct (smem id (getd [] ip0 byip)); [|reflexivity].
      rewrite get_del. assert (E2 : id' =? id = false) by (apply N.eqb_neq; exact Hn). rewrite E2. reflexivity.
Qed.

Lemma pc_add sp byip ipby id p :
  A_of sp byip -> B_of sp ipby -> (forall ip', smem id (getd [] ip' byip) = false) -> elig p = true ->
  A_of (upd id p sp) (madd (p_ip p) id byip) /\ B_of (upd id p sp) (upd id (p_ip p) ipby).
Proof.
  intros HA HB Hnc He. split.
  - intros id' ip'. rewrite smem_madd, get_upd. destruct (id' =? id) eqn:E.
    + apply N.eqb_eq in E. subst id'. rewrite He, !Hnc. cbn [andb]. rewrite (N.eqb_sym (p_ip p) ip').
      destruct (ip' =? p_ip p); [reflexivity|reflexivity].
    + destruct (ip' =? p_ip p) eqn:E2; [|apply HA].
      cbn [orb]. apply N.eqb_eq in E2. subst ip'. apply HA.
  - intros id'. rewrite !get_upd. destruct (id' =? id); [rewrite He; reflexivity|apply HB].
Qed.

Lemma pc_same sp byip ipby id p o :
  get id sp = Some o -> elig o = true -> elig p = true -> p_ip o = p_ip p -> A_of sp byip -> B_of sp ipby ->
  A_of (upd id p sp) byip /\ B_of (upd id p sp) ipby.
Proof.
  intros G Eo Ep Hip HA HB. split.
  - intros id' ip'. rewrite get_upd, HA. destruct (id' =? id) eqn:E; [|reflexivity].
    apply N.eqb_eq in E. subst id'. rewrite G, Eo, Ep, Hip. reflexivity.
  - intros id'. rewrite get_upd, HB. destruct (id' =? id) eqn:E; [|reflexivity].
    apply N.eqb_eq in E. subst id'. rewrite G, Eo, Ep, Hip. reflexivity.
Qed.

(* ------------------------------------------------------------------ slices whose referenced pods did not change *)
Definition agree (s : st) (sp' : map podv) := forall sid h np es, get sid (se s) = Some (Slice h np es) ->
  forall pid, refs pid es = true -> same_meta (get pid (sp s)) (get pid sp').

Lemma slices_agree s sp' sid : Inv s ->
  (forall h np es, get sid (se s) = Some (Slice h np es) ->
     forall pid, refs pid es = true -> same_meta (get pid (sp s)) (get pid sp')) ->
  (forall ip, smem sid (getd [] ip (rsy s)) = match get sid (se s) with Some v => reg_at sp' (s_eps v) ip | None => false end) /\
  (forall h, get sid (getd [] h (cache s)) =
     match get sid (se s) with
     | Some (Slice h' np es) => if h' =? h then Some (d_slice_eps sp' [] (get h (ss s)) np es) else None
     | None => None end).
Proof.
  intros HI Hag. destruct HI as [_ _ _ _ _ HG HD HE _].
  split.
  - intros ip. rewrite (HD sid ip). destruct (get sid (se s)) as [[h np es]|] eqn:G; [|reflexivity].
    cbn [s_eps]. apply (conv_agree (sp s) sp' [] None np es (Hag h np es eq_refl) (HG _ _ _ _ G)).
  - intros k. rewrite (HE sid k). destruct (get sid (se s)) as [[h np es]|] eqn:G; [|reflexivity].
    destruct (h =? k); [|reflexivity].
    destruct (conv_agree (sp s) sp' [] (get k (ss s)) np es (Hag h np es eq_refl) (HG _ _ _ _ G)) as [-> _]. reflexivity.
Qed.

(* a pod event that re-queues nothing: only PodCache changed *)
Lemma inv_quiet s s2 :
  Inv s -> se s2 = se s -> ss s2 = ss s -> cache s2 = cache s -> smap s2 = smap s -> shards s2 = shards s ->
  rsy s2 = rsy s -> q s2 = [] -> bad s2 = false -> specA s2 -> specB s2 -> agree s (sp s2) -> Inv s2.
Proof.
  intros HI Hse Hss Hc Hsm Hsh Hr Hq Hb HA HB Hag.
  pose proof HI as [_ _ _ _ HC HG _ _ HF].
  constructor; try assumption.
  - intros k. rewrite Hsm, Hss. apply HC.
  - intros x k np es. rewrite Hse. apply HG.
  - intros x ip. rewrite Hr, Hse. apply (slices_agree s (sp s2) x HI). intros h np es G. apply (Hag x h np es G).
  - intros x k. rewrite Hc, Hse, Hss. apply (slices_agree s (sp s2) x HI). intros h np es G. apply (Hag x h np es G).
  - intros k. unfold shard_cands, shard_sas, exn, cache_get. rewrite Hsh, Hss, Hc. apply HF.
Qed.

(* ------------------------------------------------------------------ a pod becomes eligible: waiting slices are re-queued *)
Lemma mid_after_fire s s2 ip :
  Inv s -> se s2 = se s -> ss s2 = ss s -> cache s2 = cache s -> smap s2 = smap s -> shards s2 = shards s ->
  (forall x ip', smem x (getd [] ip' (rsy s2)) = if ip' =? ip then false else smem x (getd [] ip' (rsy s))) ->
  q s2 = List.map TReq (getd [] ip (rsy s)) -> bad s2 = false -> specA s2 -> specB s2 ->
  (forall x h np es, get x (se s) = Some (Slice h np es) -> smem x (getd [] ip (rsy s)) = false ->
     forall pid, refs pid es = true -> same_meta (get pid (sp s)) (get pid (sp s2))) ->
  (forall x h np es ip', get x (se s) = Some (Slice h np es) -> ip' <> ip ->
     reg_at (sp s) es ip' = true -> reg_at (sp s2) es ip' = true) ->
  Mid s2 (getd [] ip (rsy s)).
Proof.
  intros HI Hse Hss Hc Hsm Hsh Hr Hq Hb HA HB Hag Hkeep.
  pose proof HI as [_ _ _ _ HC HG HD HE HF].
  constructor; try assumption.
  - intros k. rewrite Hsm, Hss. apply HC.
  - intros x k np es. rewrite Hse. apply HG.
  - intros k. unfold shard_cands, shard_sas, exn, cache_get. rewrite Hsh, Hss, Hc. apply HF.
  - intros x. destruct (smem x (getd [] ip (rsy s))) eqn:S; [left; apply smem_in; exact S|right].
    destruct (slices_agree s (sp s2) x HI) as [Ar Ac].
    { intros h np es G. apply (Hag x h np es G S). }
    split.
    + intros ip'. rewrite Hr, Hse. destruct (ip' =? ip) eqn:E; [|apply Ar].
      apply N.eqb_eq in E. subst ip'. rewrite <- Ar. symmetry. exact S.
    + intros k. rewrite Hc, Hse, Hss. apply Ac.
  - intros x Hin. apply smem_in in Hin. pose proof (HD x ip) as Dx. rewrite Hin in Dx.
    destruct (get x (se s)) as [[h np es]|] eqn:G; [|discriminate].
    exists h, np, es. rewrite Hse. split; [exact G|]. split.
    + intros ip' Hs. rewrite Hr in Hs. destruct (ip' =? ip) eqn:E; [discriminate|].
      apply (Hkeep x h np es ip' G); [apply N.eqb_neq; exact E|].
      pose proof (HD x ip') as Dx'. rewrite G, Hs in Dx'. symmetry. exact Dx'.
    + intros k Hk. rewrite Hc, (HE x k), G. destruct (h =? k) eqn:E; [|reflexivity].
      apply N.eqb_eq in E. congruence.
Qed.

Lemma fire_case s id p e old :
  Inv s -> elig p = true -> (forall ip', smem id (getd [] ip' (byip s)) = false) -> get id (ipby s) = None ->
  (e = Add \/ (e = Upd /\ lbl_changed old p = false)) ->
  (forall x h np es, get x (se s) = Some (Slice h np es) -> smem x (getd [] (p_ip p) (rsy s)) = false ->
     forall pid, refs pid es = true -> same_meta (get pid (sp s)) (get pid (upd id p (sp s)))) ->
  (forall x h np es ip', get x (se s) = Some (Slice h np es) -> ip' <> p_ip p ->
     reg_at (sp s) es ip' = true -> reg_at (upd id p (sp s)) es ip' = true) ->
  Inv (settle (set_q (q s ++ [TPod id e old p]) (set_sp (upd id p (sp s)) s))).
Proof.
  intros HI He Hnc Hib Hev Hag Hkeep. pose proof HI as [Hq Hb HA HB _ _ _ _ _].
  set (s1 := set_q (q s ++ [TPod id e old p]) (set_sp (upd id p (sp s)) s)).
  set (l := getd [] (p_ip p) (rsy s)).
  assert (Hsp : spawn_of s1 (TPod id e old p) = l).
  { unfold spawn_of, s1. st_simpl. rewrite get_upd_eq, He, Hnc. cbn [negb andb].
    destruct Hev as [->|[-> _]]; reflexivity. }
  assert (Hq1 : q s1 = [TPod id e old p]) by (unfold s1; st_simpl; rewrite Hq; reflexivity).
  unfold settle. rewrite Hq1. cbv zeta. rewrite Hsp. cbn [step]. rewrite Hq1.
  set (s1' := set_q [] s1).
  assert (Hrun : run_task s1' (TPod id e old p) l = add_pod s1' p (p_ip p) id false l).
  { destruct Hev as [->|[-> Hl]]; cbn [run_task]; unfold s1', s1; st_simpl; rewrite get_upd_eq;
      unfold pod_on_event; rewrite (elig_ip p He), (elig_ip p He), He; cbn [negb]; rewrite ?Hl; reflexivity. }
  rewrite Hrun.
  destruct (add_pod_fire s1' p (p_ip p) id (Hnc (p_ip p)) Hib) as (Hfp & Hbi & Hipb & Hr & Hq2 & Hb2).
  change (getd [] (p_ip p) (rsy s1')) with l in *.
  set (s2 := add_pod s1' p (p_ip p) id false l) in *.
  unfold fp in Hfp. injection Hfp as Hsp2 Hse2 Hss2 Hc2 Hsm2 Hsh2.
  unfold s1', s1 in Hsp2, Hse2, Hss2, Hc2, Hsm2, Hsh2, Hbi, Hipb, Hr, Hq2, Hb2. st_simpl.
  destruct (pc_add (sp s) (byip s) (ipby s) id p HA HB Hnc He) as [HA2 HB2].
  apply mid_fold. unfold l. apply (mid_after_fire s s2 (p_ip p) HI Hse2 Hss2 Hc2 Hsm2 Hsh2 Hr).
  - rewrite Hq2. reflexivity.
  - rewrite Hb2. exact Hb.
  - intros id' ip'. rewrite Hbi, Hsp2. apply HA2.
  - intros id'. rewrite Hipb, Hsp2. apply HB2.
  - rewrite Hsp2. exact Hag.
  - rewrite Hsp2. exact Hkeep.
Qed.

(* ------------------------------------------------------------------ a pod stops being eligible / is deleted *)
Lemma remove_case s id t sp' ip0 :
  Inv s -> (forall id', id' <> id -> get id' sp' = get id' (sp s)) ->
  match get id sp' with Some p => elig p = false | None => True end ->
  (forall o, get id (sp s) = Some o -> elig o = true -> ip0 = p_ip o) ->
  agree s sp' ->
  let s1' := set_q [] (set_q (q s ++ [t]) (set_sp sp' s)) in
  Inv (if ip0 =? 0 then s1' else delete_ip s1' ip0 id).
Proof.
  intros HI Hoth Hnew Hip0 Hag. cbv zeta. pose proof HI as [Hq Hb HA HB _ _ _ _ _].
  destruct (pc_remove (sp s) sp' (byip s) (ipby s) id ip0 HA HB Hoth Hnew Hip0) as [HA' HB'].
  set (s1' := set_q [] (set_q (q s ++ [t]) (set_sp sp' s))).
  assert (Hc0 : ip0 = 0 -> smem id (getd [] ip0 (byip s)) = false).
  { intros ->. rewrite (HA id 0). destruct (get id (sp s)) as [o|]; [|reflexivity].
    destruct (elig o) eqn:Eo; [|reflexivity]. rewrite (elig_ip o Eo). reflexivity. }
  destruct (ip0 =? 0) eqn:E0.
  - apply N.eqb_eq in E0. rewrite (Hc0 E0) in HA', HB'.
    apply (inv_quiet s s1' HI); try reflexivity; try assumption.
  - unfold delete_ip. change (byip s1') with (byip s).
    destruct (smem id (getd [] ip0 (byip s))) eqn:C.
    + apply (inv_quiet s); try reflexivity; try assumption.
    + apply (inv_quiet s s1' HI); try reflexivity; try assumption.
Qed.

Lemma agree_upd s id o p : get id (sp s) = Some o -> p_sa p = p_sa o -> p_lbl p = p_lbl o -> agree s (upd id p (sp s)).
Proof.
  intros G Hsa Hl sid h np es _ pid _. rewrite get_upd. destruct (pid =? id) eqn:E; [|apply same_meta_refl].
  apply N.eqb_eq in E. subst pid. rewrite G. cbn. split; congruence.
Qed.

Lemma agree_del s id : (forall sid h np es, get sid (se s) = Some (Slice h np es) -> refs id es = false) -> agree s (del id (sp s)).
Proof.
  intros Hno sid h np es G pid Hr. rewrite get_del. destruct (pid =? id) eqn:E; [|apply same_meta_refl].
  apply N.eqb_eq in E. subst pid. rewrite (Hno sid h np es G) in Hr. discriminate.
Qed.

(* ------------------------------------------------------------------ every pod write *)
Lemma inv_pod s id v : Inv s -> good_step s (WPod id v) -> Inv (imm_step s (WPod id v)).
Proof.
  intros HI Hgood. pose proof HI as [Hq Hb HA HB HC HG HD HE HF].
  unfold imm_step. cbn [step]. unfold write.
  destruct v as [p|]; destruct (get id (sp s)) as [o|] eqn:G; cbv beta iota zeta; cbn [good_step] in Hgood; rewrite ?G in Hgood.
  - (* update *)
    destruct Hgood as (Hl & Hsa & Hip).
    destruct (elig p) eqn:Ep.
    + destruct (smem id (getd [] (p_ip p) (byip s))) eqn:C.
      * (* still eligible under the same address: nothing to do *)
        assert (Ho : elig o = true /\ p_ip o = p_ip p).
        { rewrite (HA id (p_ip p)), G in C. apply andb_true_iff in C. destruct C as [C1 C2]. apply N.eqb_eq in C2. split; assumption. }
        destruct Ho as [Eo Hio].
        rewrite settle_single with (t := TPod id Upd (Some o) p).
        2: { st_simpl. rewrite Hq. reflexivity. }
        2: { unfold spawn_of. st_simpl. rewrite get_upd_eq, Ep, C. reflexivity. }
        cbn [run_task]. st_simpl. rewrite get_upd_eq. unfold pod_on_event. rewrite (elig_ip p Ep), (elig_ip p Ep), Ep. cbn [negb].
        unfold add_pod. st_simpl. rewrite C. unfold lbl_changed. rewrite Hl, N.eqb_refl. cbn [negb].
        destruct (pc_same (sp s) (byip s) (ipby s) id p o G Eo Ep Hio HA HB) as [HA' HB'].
        apply (inv_quiet s); try reflexivity; try assumption. apply (agree_upd s id o p G Hsa Hl).
      * (* becomes eligible: re-queue the waiting slices *)
        assert (Eo : elig o = false).
        { destruct (elig o) eqn:Eo; [|reflexivity]. exfalso.
          assert (Hi : p_ip p = p_ip o).
          { destruct Hip as [H0|[H0|H0]]; [rewrite H0 in *; pose proof (elig_ip o Eo) as X; rewrite H0 in X; discriminate| |exact H0].
            pose proof (elig_ip p Ep) as X. rewrite H0 in X. discriminate. }
          rewrite (HA id (p_ip p)), G, Eo, Hi, N.eqb_refl in C. discriminate. }
        apply fire_case; try assumption.
        -- intros ip'. rewrite (HA id ip'), G, Eo. reflexivity.
        -- rewrite (HB id), G, Eo. reflexivity.
        -- right. split; [reflexivity|]. unfold lbl_changed. rewrite Hl, N.eqb_refl. reflexivity.
        -- intros x h np es Gx _. apply (agree_upd s id o p G Hsa Hl x h np es Gx).
        -- intros x h np es ip' Gx _ R.
           destruct (conv_agree (sp s) (upd id p (sp s)) [] None np es (agree_upd s id o p G Hsa Hl x h np es Gx) (HG _ _ _ _ Gx)) as [_ Hr].
           rewrite <- Hr. exact R.
    + (* not eligible after the update *)
      rewrite settle_single with (t := TPod id Upd (Some o) p).
      2: { st_simpl. rewrite Hq. reflexivity. }
      2: { unfold spawn_of. st_simpl. rewrite get_upd_eq, Ep. reflexivity. }
      cbn [run_task]. st_simpl. rewrite get_upd_eq. unfold pod_on_event. st_simpl. rewrite Ep. cbn [negb].
      apply (remove_case s id (TPod id Upd (Some o) p) (upd id p (sp s))
               (if p_ip p =? 0 then getd 0 id (ipby s) else p_ip p)); try assumption.
      * intros id' Hn. apply get_upd_neq. exact Hn.
      * rewrite get_upd_eq. exact Ep.
      * intros o' Go Eo. rewrite G in Go. injection Go as <-.
        destruct (p_ip p =? 0) eqn:E0.
        -- unfold getd. rewrite (HB id), G, Eo. reflexivity.
        -- destruct Hip as [H0|[H0|H0]]; [pose proof (elig_ip o Eo) as X; rewrite H0 in X; discriminate| |exact H0].
           rewrite H0 in E0. discriminate.
      * apply (agree_upd s id o p G Hsa Hl).
  - (* create *)
    destruct Hgood as (Ep & Haddr).
    apply fire_case; try assumption.
    + intros ip'. rewrite (HA id ip'), G. reflexivity.
    + rewrite (HB id), G. reflexivity.
    + left. reflexivity.
    + intros x h np es Gx S pid Hr. rewrite get_upd. destruct (pid =? id) eqn:E; [|apply same_meta_refl].
      exfalso. apply N.eqb_eq in E. subst pid. destruct (refs_in id es Hr) as (ip0 & c & Hin).
      pose proof (Haddr x h np es ip0 c Gx Hin) as ->.
      assert (R : reg_at (sp s) es (p_ip p) = true) by (apply reg_at_in; exists id, c; split; assumption).
      pose proof (HD x (p_ip p)) as Dx. rewrite Gx in Dx. cbn [s_eps] in Dx. rewrite R, S in Dx. discriminate.
    + intros x h np es ip' Gx Hne R. apply reg_at_in in R. destruct R as (pid & c & Hin & Hn).
      apply reg_at_in. exists pid, c. split; [exact Hin|]. rewrite get_upd. destruct (pid =? id) eqn:E; [|exact Hn].
      exfalso. apply N.eqb_eq in E. subst pid. apply Hne. exact (Haddr x h np es ip' c Gx Hin).
  - (* delete *)
    rewrite settle_single with (t := TPod id Del None o).
    2: { st_simpl. rewrite Hq. reflexivity. }
    2: { reflexivity. }
    cbn [run_task]. unfold pod_on_event. st_simpl.
    apply (remove_case s id (TPod id Del None o) (del id (sp s))
             (if p_ip o =? 0 then getd 0 id (ipby s) else p_ip o)); try assumption.
    + intros id' Hn. rewrite get_del. assert (E : id' =? id = false) by (apply N.eqb_neq; exact Hn). rewrite E. reflexivity.
    + rewrite get_del, N.eqb_refl. exact I.
    + intros o' Go Eo. rewrite G in Go. injection Go as <-. rewrite (elig_ip o Eo). reflexivity.
    + apply agree_del. exact Hgood.
  - (* delete of a pod that does not exist *)
    unfold settle. st_simpl. rewrite Hq. cbn [app].
    constructor; st_simpl; try assumption; try reflexivity.
Qed.
