(* C15 — confluence for immediate-delivery schedules, part 5: service and slice writes preserve the invariant. *)
From Coq Require Import List NArith Bool Lia.
From V Require Import C15.Model C15.Proofs C15.ProofsMap C15.ProofsIdx C15.ProofsImm1 C15.ProofsImm2 C15.ProofsImm3 C15.ProofsImm4.
Import ListNotations.
Open Scope N_scope.

(* the slices that the head task will re-queue (PodCache.addPod reads needResync[ip]) *)
Definition spawn_of (s : st) (t : task) : list N :=
  match t with
  | TPod id Del _ _ => []
  | TPod id _ _ _ =>
      match get id (sp s) with
      | Some p => if elig p && negb (smem id (getd [] (p_ip p) (byip s))) then getd [] (p_ip p) (rsy s) else []
      | None => []
      end
  | _ => []
  end.

(* immediate delivery: the event of a write and everything it re-queues are handled before the next write *)
Definition settle (s : st) : st :=
  match q s with
  | [] => s
  | t :: _ => let l := spawn_of s t in fold_left (fun a (_ : N) => step a (H [])) l (step s (H l))
  end.
Definition imm_step (s : st) (w : op) : st := settle (step s w).

(* hypotheses on a write, relative to the informer stores at that moment (they exclude the known findings) *)
Definition good_step (s : st) (w : op) : Prop :=
  match w with
  | H _ => False
  | WSv _ _ => se s = []                                   (* H2: services are final before the first slice *)
  | WPod id (Some p) =>
      match get id (sp s) with
      | Some o => p_lbl p = p_lbl o /\ p_sa p = p_sa o /\ (p_ip o = 0 \/ p_ip p = 0 \/ p_ip p = p_ip o)
      | None => (* H1: a pod is eligible when it first appears, under the address its endpoints use *)
          elig p = true /\
          forall sid h np es ip c, get sid (se s) = Some (Slice h np es) -> In (Ep ip (Some id) c) es -> ip = p_ip p
      end
  | WPod id None => forall sid h np es, get sid (se s) = Some (Slice h np es) -> refs id es = false
  | WSl sid (Some (Slice h np es)) =>
      all_ref es = true /\
      match get sid (se s) with
      | Some (Slice h0 _ es0) =>
          h0 = h /\ forall ip pid pid' c c', In (Ep ip (Some pid) c) es0 -> In (Ep ip (Some pid') c') es -> pid = pid'
      | None => True
      end
  | WSl _ None => True
  end.

Lemma settle_single s t : q s = [t] -> spawn_of s t = [] -> settle s = run_task (set_q [] s) t [].
Proof. intros Hq Hs. unfold settle. rewrite Hq. cbv zeta. rewrite Hs. cbn [fold_left step]. rewrite Hq. reflexivity. Qed.

Lemma get_all_none_nil {A} (m : map A) : (forall k, get k m = None) -> m = [].
Proof. destruct m as [|[k v] m]; [reflexivity|]. intros H. specialize (H k). cbn [get] in H. rewrite N.eqb_refl in H. discriminate. Qed.

Lemma reg_addr sp es ip : reg_at sp es ip = true -> addr_in es ip = true.
Proof. rewrite reg_at_in, addr_in_in. intros (pid & c & Hin & _). exists (Some pid), c. exact Hin. Qed.

Lemma smem_map_addr ip es : smem ip (List.map e_ip es) = addr_in es ip.
Proof.
  induction es as [|e es IH]; [reflexivity|]. cbn [List.map smem addr_in existsb]. fold (addr_in es ip).
  rewrite IH, (N.eqb_sym ip (e_ip e)). reflexivity.
Qed.

(* ------------------------------------------------------------------ services (no slice exists) *)
Lemma inv_svc s id v : Inv s -> se s = [] -> Inv (imm_step s (WSv id v)).
Proof.
  intros [Hq Hb HA HB HC HG HD HE HF] Hse.
  assert (Hcg : forall h, cache_get s h = []).
  { intros h. unfold cache_get. rewrite (get_all_none_nil (getd [] h (cache s))); [reflexivity|].
    intros k. rewrite (HE k h), Hse. reflexivity. }
  assert (Hc0 : forall h, shard_cands s h = []).
  { intros h. destruct (HF h) as [H1 _]. rewrite H1, Hcg. destruct (exn s h); reflexivity. }
  unfold imm_step. cbn [step]. unfold write.
  destruct v as [x|]; destruct (get id (ss s)) as [o|] eqn:G; cbv beta iota zeta.
  - (* update *)
    rewrite settle_single with (t := TSv id Upd (Some o) x); [|st_simpl; rewrite Hq; reflexivity|reflexivity].
    cbn [run_task]. st_simpl. rewrite get_upd_eq. unfold svc_on_event. unfold slices_of. st_simpl. rewrite Hse. cbn [filter].
    constructor; st_simpl; try assumption; try reflexivity.
    + intros h. st_simpl. rewrite !get_upd, HC. reflexivity.
    + intros sid h. st_simpl. rewrite (HE sid h), Hse. reflexivity.
    + intros h. unfold shard_cands, shard_sas, exn, cache_get. st_simpl.
      fold (shard_cands s h). fold (shard_sas s h). fold (cache_get s h). rewrite Hc0, Hcg.
      split; [destruct (match get h (upd id x (ss s)) with Some v => exportnone v | None => false end); reflexivity|].
      intros Hne. contradiction.
  - (* add *)
    rewrite settle_single with (t := TSv id Add None x); [|st_simpl; rewrite Hq; reflexivity|reflexivity].
    cbn [run_task]. st_simpl. rewrite get_upd_eq. unfold svc_on_event. unfold slices_of. st_simpl. rewrite Hse. cbn [filter].
    constructor; st_simpl; try assumption; try reflexivity.
    + intros h. st_simpl. rewrite !get_upd, HC. reflexivity.
    + intros sid h. st_simpl. rewrite (HE sid h), Hse. reflexivity.
    + intros h. unfold shard_cands, shard_sas, exn, cache_get. st_simpl.
      fold (shard_cands s h). fold (shard_sas s h). fold (cache_get s h). rewrite Hc0, Hcg.
      split; [destruct (match get h (upd id x (ss s)) with Some v => exportnone v | None => false end); reflexivity|].
      intros Hne. contradiction.
  - (* delete *)
    rewrite settle_single with (t := TSv id Del None o); [|st_simpl; rewrite Hq; reflexivity|reflexivity].
    cbn [run_task svc_on_event]. st_simpl.
    constructor; st_simpl; try assumption; try reflexivity.
    + intros h. st_simpl. rewrite !get_del, HC. reflexivity.
    + intros sid h. st_simpl. rewrite (HE sid h), Hse. reflexivity.
    + intros h. unfold shard_cands, shard_sas, exn, cache_get. st_simpl. fold (cache_get s h). rewrite Hcg.
      rewrite get_del. destruct (h =? id) eqn:E.
      * split; [destruct (match get h (del id (ss s)) with Some v => exportnone v | None => false end); reflexivity|].
        intros Hne. contradiction.
      * fold (shard_cands s h). fold (shard_sas s h). rewrite Hc0.
        split; [destruct (match get h (del id (ss s)) with Some v => exportnone v | None => false end); reflexivity|].
        intros Hne. contradiction.
  - (* delete of a service that does not exist: nothing happens *)
    unfold settle. st_simpl. rewrite Hq. cbn [app].
    constructor; st_simpl; try assumption; try reflexivity.
Qed.
