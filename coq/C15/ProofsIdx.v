(* C15 — PodCache index invariant for ALL schedules: podsByIP and ipByPods are mutually inverse. *)
From Coq Require Import List NArith Bool Lia.
From V Require Import C15.Model C15.ProofsMap.
Import ListNotations.
Open Scope N_scope.

Ltac st_simpl := cbn [sp se ss byip ipby rsy cache smap shards q emits bad
  set_sp set_se set_ss set_byip set_ipby set_rsy set_cache set_smap set_shards set_q set_emits set_bad] in *.

Definition idx_inv (s : st) : Prop :=
  forall id ip, smem id (getd [] ip (byip s)) = true <-> get id (ipby s) = Some ip.

(* the PodCache index part of a state *)
Definition pc (s : st) := (byip s, ipby s).

Lemma pc_inv s s' : pc s' = pc s -> idx_inv s -> idx_inv s'.
Proof. unfold pc, idx_inv. intros H. injection H as H1 H2. rewrite H1, H2. auto. Qed.

(* ---- functions that never touch the index *)
Lemma pc_update_cache s sid sl : pc (update_cache_for_slice s sid sl) = pc s.
Proof. destruct sl as [h np es]. unfold update_cache_for_slice. destruct (build_slice _ _ _ _ _ _ _). reflexivity. Qed.

Lemma pc_eds s h l : pc (eds_update s h l) = pc s.
Proof. unfold eds_update. destruct l; [destruct (get h (shards s)) as [[? ? ?]|]|]; reflexivity. Qed.

Lemma pc_fold_update sls : forall s,
  pc (fold_left (fun a (kv : N * slicev) => update_cache_for_slice a (fst kv) (snd kv)) sls s) = pc s.
Proof. induction sls as [|kv sls IH]; intros s; cbn [fold_left]; [reflexivity|]. rewrite IH. apply pc_update_cache. Qed.

Lemma pc_recompute s p : pc (recompute_service_for_pod s p) = pc s.
Proof.
  unfold recompute_service_for_pod.
  destruct (get (p_lbl p) (ss s)); [|reflexivity].
  destruct (get (p_lbl p) (smap s)); [|reflexivity].
  destruct (slices_of s (p_lbl p)) as [|kv sls] eqn:E; [reflexivity|].
  set (s' := fold_left _ _ s). assert (Hs : pc s' = pc s) by apply pc_fold_update.
  destruct (cache_get s' (p_lbl p)); unfold pc in *; st_simpl; [exact Hs|].
  change (pc (eds_update s' (p_lbl p) (e :: l)) = pc s). rewrite pc_eds. exact Hs.
Qed.

Lemma pc_delete_slice s sid sl : pc (delete_slice s sid sl) = pc s.
Proof. reflexivity. Qed.
Lemma pc_cleanup s sid o c : pc (cleanup_removed s sid o c) = pc s.
Proof. reflexivity. Qed.

Lemma pc_slice_on_event s sid e old cur : pc (slice_on_event s sid e old cur) = pc s.
Proof.
  unfold slice_on_event.
  set (s1 := match e with Del => _ | _ => _ end).
  assert (H1 : pc s1 = pc s).
  { subst s1. destruct e; [rewrite pc_update_cache; destruct old; reflexivity|rewrite pc_update_cache; destruct old; reflexivity|reflexivity]. }
  destruct (match get (s_svc cur) (ss s1) with Some v => exportnone v | None => false end); [exact H1|].
  set (s2 := eds_update s1 _ _). assert (H2 : pc s2 = pc s) by (subst s2; rewrite pc_eds; exact H1).
  destruct (get (s_svc cur) (ss s1)); [|exact H2].
  destruct (headless s0); [|exact H2]. destruct (get (s_svc cur) (smap s2)); exact H2.
Qed.

Lemma pc_svc_on_event s id e cur : pc (svc_on_event s id e cur) = pc s.
Proof.
  unfold svc_on_event. destruct e; try reflexivity;
  (set (s1 := set_smap _ s); destruct (slices_of s1 id); [reflexivity|];
   destruct (cache_get s1 id); [reflexivity|]; rewrite pc_eds; reflexivity).
Qed.

(* ---- the two functions that write the index *)
Lemma idx_delete_ip s ip id : idx_inv s -> idx_inv (delete_ip s ip id).
Proof.
  intros Hi. unfold delete_ip. destruct (smem id (getd [] ip (byip s))) eqn:Hm; [|exact Hi].
  intros id' ip'. st_simpl. rewrite smem_mdel, get_del.
  destruct (id' =? id) eqn:Eid.
  - apply N.eqb_eq in Eid. subst id'. split; [|discriminate].
    destruct (ip' =? ip) eqn:Eip; [cbn [negb andb]; discriminate|].
    intros H. apply Hi in H. apply Hi in Hm. rewrite H in Hm. injection Hm as ->. rewrite N.eqb_refl in Eip. discriminate.
  - destruct (ip' =? ip) eqn:Eip.
    + apply N.eqb_eq in Eip. subst ip'. cbn [negb andb]. apply Hi.
    + apply Hi.
Qed.

Lemma idx_add_pod s p ip id lu sp : idx_inv s -> idx_inv (add_pod s p ip id lu sp).
Proof.
  intros Hi. unfold add_pod. destruct (smem id (getd [] ip (byip s))) eqn:Hm.
  - destruct lu; [|exact Hi]. eapply pc_inv; [apply pc_recompute|exact Hi].
  - set (b1 := match get id (ipby s) with Some cur => mdel cur id (byip s) | None => byip s end).
    set (s1 := set_ipby _ _).
    assert (H1 : idx_inv s1).
    { subst s1. intros id' ip'. st_simpl. rewrite smem_madd, get_upd.
      destruct (id' =? id) eqn:Eid.
      - apply N.eqb_eq in Eid. subst id'. destruct (ip' =? ip) eqn:Eip.
        + apply N.eqb_eq in Eip. subst ip'. cbn [orb]. tauto.
        + split.
          * intros H. exfalso. subst b1. destruct (get id (ipby s)) as [cur|] eqn:G.
            -- rewrite smem_mdel in H. destruct (ip' =? cur) eqn:Ec.
               ++ rewrite N.eqb_refl in H. discriminate.
               ++ apply Hi in H. rewrite H in G. injection G as ->. rewrite N.eqb_refl in Ec. discriminate.
            -- apply Hi in H. rewrite H in G. discriminate.
          * intros H. injection H as ->. rewrite N.eqb_refl in Eip. discriminate.
      - assert (Hb : smem id' (getd [] ip' b1) = smem id' (getd [] ip' (byip s))).
        { subst b1. destruct (get id (ipby s)) as [cur|]; [|reflexivity].
          rewrite smem_mdel. destruct (ip' =? cur) eqn:Ec; [|reflexivity].
          apply N.eqb_eq in Ec. subst. rewrite Eid. reflexivity. }
        destruct (ip' =? ip) eqn:Eip.
        + cbn [orb]. apply N.eqb_eq in Eip. subst ip'. rewrite Hb. apply Hi.
        + rewrite Hb. apply Hi. }
    destruct (get ip (rsy s1)).
    + eapply pc_inv; [|exact H1]. destruct (is_perm sp l); reflexivity.
    + destruct sp; exact H1.
Qed.

Lemma idx_pod_on_event s id e old p sp : idx_inv s -> idx_inv (pod_on_event s id e old p sp).
Proof.
  intros Hi. unfold pod_on_event.
  destruct ((if p_ip p =? 0 then getd 0 id (ipby s) else p_ip p) =? 0); [exact Hi|].
  destruct e.
  - destruct (elig p); [apply idx_add_pod; exact Hi|exact Hi].
  - destruct (negb (elig p)); [apply idx_delete_ip|apply idx_add_pod]; exact Hi.
  - apply idx_delete_ip. exact Hi.
Qed.

Lemma idx_set_q s l : idx_inv s -> idx_inv (set_q l s).
Proof. exact (fun H => H). Qed.

Lemma idx_run_task s t sp : idx_inv s -> idx_inv (run_task s t sp).
Proof.
  intros Hi. destruct t as [id e old cur|id e old cur|id e old cur|sid]; cbn [run_task].
  - destruct e; [destruct (get id (Model.sp s))|destruct (get id (Model.sp s))|]; try exact Hi; apply idx_pod_on_event; exact Hi.
  - destruct e; [destruct (get id (se s))|destruct (get id (se s))|]; try exact Hi;
      (eapply pc_inv; [apply pc_slice_on_event|exact Hi]).
  - destruct e; [destruct (get id (ss s))|destruct (get id (ss s))|]; try exact Hi;
      (eapply pc_inv; [apply pc_svc_on_event|exact Hi]).
  - destruct (get sid (se s)); [|exact Hi]. eapply pc_inv; [apply pc_slice_on_event|exact Hi].
Qed.

Lemma idx_step s o : idx_inv s -> idx_inv (step s o).
Proof.
  intros Hi. destruct o as [id v|id v|id v|spw]; cbn [step].
  - destruct (write TPod id v (sp s)). exact Hi.
  - destruct (write TSl id v (se s)). exact Hi.
  - destruct (write TSv id v (ss s)). exact Hi.
  - destruct (q s) as [|t rest] eqn:E; [exact Hi|]. apply idx_run_task. exact Hi.
Qed.

Lemma idx_st0 : idx_inv st0.
Proof. intros id ip. cbn. split; discriminate. Qed.

(* for every schedule (writes and handler runs interleaved arbitrarily, any re-queue order) *)
Theorem idx_inv_all : forall ops, idx_inv (run ops st0).
Proof.
  intros ops. unfold run. generalize idx_st0. generalize st0.
  induction ops as [|o ops IH]; intros s Hs; cbn [fold_left]; [exact Hs|].
  apply IH. apply idx_step. exact Hs.
Qed.
