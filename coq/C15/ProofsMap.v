(* C15 — laws of the finite maps / sets of Model.v (no side conditions). *)
From Coq Require Import List NArith Bool Lia.
From V Require Import C15.Model.
Import ListNotations.
Open Scope N_scope.

Lemma get_upd_eq {A} k (v : A) m : get k (upd k v m) = Some v.
Proof.
  induction m as [|[k' v'] m IH]; cbn [upd get]; [rewrite N.eqb_refl; reflexivity|].
  destruct (k =? k') eqn:E; [cbn [get]; rewrite N.eqb_refl; reflexivity|].
  destruct (k <? k'); cbn [get]; [rewrite N.eqb_refl; reflexivity|rewrite E; exact IH].
Qed.

Lemma get_upd_neq {A} k k' (v : A) m : k' <> k -> get k' (upd k v m) = get k' m.
Proof.
  intros Hn. induction m as [|[k2 v2] m IH]; cbn [upd get].
  - destruct (k' =? k) eqn:E; [apply N.eqb_eq in E; contradiction|reflexivity].
  - destruct (k =? k2) eqn:E.
    + apply N.eqb_eq in E. subst k2. cbn [get].
      destruct (k' =? k) eqn:E2; [apply N.eqb_eq in E2; contradiction|reflexivity].
    + destruct (k <? k2); cbn [get].
      * destruct (k' =? k) eqn:E2; [apply N.eqb_eq in E2; contradiction|reflexivity].
      * destruct (k' =? k2); [reflexivity|exact IH].
Qed.

Lemma get_upd {A} k k' (v : A) m : get k' (upd k v m) = if k' =? k then Some v else get k' m.
Proof.
  destruct (k' =? k) eqn:E.
  - apply N.eqb_eq in E. subst. apply get_upd_eq.
  - apply get_upd_neq. intros ->. rewrite N.eqb_refl in E. discriminate.
Qed.

Lemma get_del {A} k k' (m : map A) : get k' (del k m) = if k' =? k then None else get k' m.
Proof.
  induction m as [|[k2 v2] m IH]; cbn [del get]; [destruct (k' =? k); reflexivity|].
  destruct (k =? k2) eqn:E.
  - apply N.eqb_eq in E. subst k2. rewrite IH. destruct (k' =? k); reflexivity.
  - cbn [get]. rewrite IH. destruct (k' =? k) eqn:E2; [|reflexivity].
    apply N.eqb_eq in E2. subst k'. rewrite E. reflexivity.
Qed.

Lemma getd_upd {A} (d : A) k k' v m : getd d k' (upd k v m) = if k' =? k then v else getd d k' m.
Proof. unfold getd. rewrite get_upd. destruct (k' =? k); reflexivity. Qed.

Lemma getd_del {A} (d : A) k k' m : getd d k' (del k m) = if k' =? k then d else getd d k' m.
Proof. unfold getd. rewrite get_del. destruct (k' =? k); reflexivity. Qed.

Lemma smem_sadd x y s : smem x (sadd y s) = (x =? y) || smem x s.
Proof.
  induction s as [|z s IH]; cbn [sadd smem]; [reflexivity|].
  destruct (y =? z) eqn:E.
  - apply N.eqb_eq in E. subst z. cbn [smem]. destruct (x =? y); reflexivity.
  - destruct (y <? z); cbn [smem]; [reflexivity|]. rewrite IH.
    destruct (x =? z), (x =? y); reflexivity.
Qed.

Lemma smem_sdel x y s : smem x (sdel y s) = negb (x =? y) && smem x s.
Proof.
  induction s as [|z s IH]; cbn [sdel smem]; [rewrite andb_false_r; reflexivity|].
  destruct (y =? z) eqn:E.
  - apply N.eqb_eq in E. subst z. rewrite IH. destruct (x =? y); reflexivity.
  - cbn [smem]. rewrite IH. destruct (x =? z) eqn:E2; [|reflexivity].
    apply N.eqb_eq in E2. subst z. rewrite N.eqb_sym, E. reflexivity.
Qed.

Lemma smem_madd x k k' y m :
  smem x (getd [] k' (madd k y m)) = if k' =? k then (x =? y) || smem x (getd [] k m) else smem x (getd [] k' m).
Proof.
  unfold madd. rewrite getd_upd. destruct (k' =? k); [apply smem_sadd|reflexivity].
Qed.

Lemma sdel_nil_smem y s : sdel y s = [] -> forall x, negb (x =? y) && smem x s = false.
Proof. intros H x. rewrite <- smem_sdel, H. reflexivity. Qed.

Lemma smem_mdel x k k' y m :
  smem x (getd [] k' (mdel k y m)) =
  if k' =? k then negb (x =? y) && smem x (getd [] k m) else smem x (getd [] k' m).
Proof.
  unfold mdel. destruct (get k m) as [s|] eqn:G.
  - destruct (sdel y s) as [|z s'] eqn:D.
    + rewrite getd_del. destruct (k' =? k) eqn:E; [|reflexivity].
      unfold getd at 1. rewrite G. cbn [smem]. symmetry. apply sdel_nil_smem. exact D.
    + rewrite getd_upd. destruct (k' =? k) eqn:E; [|reflexivity].
      rewrite <- D, smem_sdel. unfold getd. rewrite G. reflexivity.
  - destruct (k' =? k) eqn:E; [|reflexivity].
    apply N.eqb_eq in E. subst k'. unfold getd. rewrite G. cbn [smem]. rewrite andb_false_r. reflexivity.
Qed.

Lemma getd_some {A} (d : A) k m v : get k m = Some v -> getd d k m = v.
Proof. intros H. unfold getd. rewrite H. reflexivity. Qed.
Lemma getd_none {A} (d : A) k (m : map A) : get k m = None -> getd d k m = d.
Proof. intros H. unfold getd. rewrite H. reflexivity. Qed.
