(* C15 — confluence for immediate-delivery schedules, part 8: all write sequences; link to [run]. *)
From Coq Require Import List NArith Bool Lia.
From V Require Import C15.Model C15.Proofs C15.ProofsMap C15.ProofsIdx C15.ProofsImm1 C15.ProofsImm2 C15.ProofsImm3
  C15.ProofsImm4 C15.ProofsImm5 C15.ProofsImm6 C15.ProofsImm7.
Import ListNotations.
Open Scope N_scope.

Fixpoint good_run (s : st) (ws : list op) : Prop :=
  match ws with [] => True | w :: ws => good_step s w /\ good_run (imm_step s w) ws end.

Definition imm_run (ws : list op) (s : st) : st := fold_left imm_step ws s.

Lemma inv_st0 : Inv st0.
Proof.
  constructor; try reflexivity.
  - intros id ip. reflexivity.
  - intros id. reflexivity.
  - intros h. reflexivity.
  - intros sid h np es H. discriminate.
  - intros sid ip. reflexivity.
  - intros sid h. reflexivity.
  - intros h. split; [reflexivity|]. intros H. exfalso. apply H. reflexivity.
Qed.

Lemma inv_imm_step s w : Inv s -> good_step s w -> Inv (imm_step s w).
Proof.
  intros HI Hg. destruct w as [id v|id v|id v|l].
  - apply inv_pod; assumption.
  - apply inv_slice; assumption.
  - apply inv_svc; [assumption|exact Hg].
  - destruct Hg.
Qed.

Theorem inv_imm_run : forall ws s, Inv s -> good_run s ws -> Inv (imm_run ws s).
Proof.
  induction ws as [|w ws IH]; intros s HI Hg; cbn [imm_run fold_left]; [exact HI|].
  destruct Hg as [Hg1 Hg2]. apply IH; [apply inv_imm_step; assumption|exact Hg2].
Qed.

(* ---- an immediate-delivery run IS a schedule of the small-step system *)
Definition settle_ops (s : st) : list op :=
  match q s with
  | [] => []
  | t :: _ => let l := spawn_of s t in H l :: List.map (fun _ => H []) l
  end.

Lemma fold_map_H (l : list N) : forall s,
  fold_left step (List.map (fun _ => H []) l) s = fold_left (fun a (_ : N) => step a (H [])) l s.
Proof. induction l as [|x l IH]; intros s; cbn [List.map fold_left]; [reflexivity|apply IH]. Qed.

Lemma run_settle_ops s : run (settle_ops s) s = settle s.
Proof.
  unfold settle_ops, settle, run. destruct (q s) as [|t rest]; [reflexivity|].
  cbv zeta. cbn [fold_left]. apply fold_map_H.
Qed.

Fixpoint imm_ops (s : st) (ws : list op) : list op :=
  match ws with
  | [] => []
  | w :: ws => let o := w :: settle_ops (step s w) in o ++ imm_ops (imm_step s w) ws
  end.

Lemma run_app a b s : run (a ++ b) s = run b (run a s).
Proof. unfold run. apply fold_left_app. Qed.

Lemma run_imm_ops : forall ws s, run (imm_ops s ws) s = imm_run ws s.
Proof.
  induction ws as [|w ws IH]; intros s; cbn [imm_ops imm_run fold_left]; [reflexivity|].
  cbv zeta. rewrite run_app. change (w :: settle_ops (step s w)) with ([w] ++ settle_ops (step s w)).
  rewrite run_app. change (run [w] s) with (step s w). rewrite run_settle_ops. fold (imm_step s w). apply IH.
Qed.

(* the writes of the schedule are exactly [ws] (handler steps removed) *)
Lemma writes_imm_ops : forall ws s, (forall w, In w ws -> match w with H _ => False | _ => True end) ->
  filter (fun o => match o with H _ => false | _ => true end) (imm_ops s ws) = ws.
Proof.
  induction ws as [|w ws IH]; intros s Hw; cbn [imm_ops]; [reflexivity|]. cbv zeta.
  rewrite filter_app.
  assert (Hs : filter (fun o => match o with H _ => false | _ => true end) (settle_ops (step s w)) = []).
  { unfold settle_ops. destruct (q (step s w)); [reflexivity|]. cbv zeta. cbn [filter].
    induction (spawn_of (step s w) t) as [|x l0 IHl]; [reflexivity|exact IHl]. }
  cbn [filter]. pose proof (Hw w (or_introl eq_refl)) as Hww. destruct w; try contradiction;
    (rewrite Hs; cbn [app]; f_equal; apply IH; intros w' Hin; apply Hw; right; exact Hin).
Qed.

(* ---- confluence: the registry is a function of the informer stores *)
Definition reg_equiv (a b : st) : Prop :=
  (forall id ip, smem id (getd [] ip (byip a)) = smem id (getd [] ip (byip b))) /\
  (forall id, get id (ipby a) = get id (ipby b)) /\
  (forall sid ip, smem sid (getd [] ip (rsy a)) = smem sid (getd [] ip (rsy b))) /\
  (forall h sid, get sid (getd [] h (cache a)) = get sid (getd [] h (cache b))) /\
  (forall h, get h (smap a) = get h (smap b)).

Lemma inv_determines a b : Inv a -> Inv b -> sp a = sp b -> se a = se b -> ss a = ss b -> reg_equiv a b.
Proof.
  intros [_ _ A1 B1 C1 _ D1 E1 _] [_ _ A2 B2 C2 _ D2 E2 _] Hsp Hse Hss. repeat split.
  - intros id ip. rewrite A1, A2, Hsp. reflexivity.
  - intros id. rewrite B1, B2, Hsp. reflexivity.
  - intros sid ip. rewrite D1, D2, Hsp, Hse. reflexivity.
  - intros h sid. rewrite (E1 sid h), (E2 sid h), Hsp, Hse, Hss. reflexivity.
  - intros h. rewrite C1, C2, Hss. reflexivity.
Qed.

Theorem confluence_immediate ws1 ws2 :
  good_run st0 ws1 -> good_run st0 ws2 ->
  let a := run (imm_ops st0 ws1) st0 in let b := run (imm_ops st0 ws2) st0 in
  sp a = sp b -> se a = se b -> ss a = ss b ->
  q a = [] /\ q b = [] /\ bad a = false /\ bad b = false /\ reg_equiv a b /\
  (forall h, shard_cands a h = (if exn a h then [] else cache_get a h)) /\
  (forall h, shard_cands b h = (if exn b h then [] else cache_get b h)).
Proof.
  intros G1 G2. cbv zeta. rewrite !run_imm_ops. intros Hsp Hse Hss.
  pose proof (inv_imm_run ws1 st0 inv_st0 G1) as I1. pose proof (inv_imm_run ws2 st0 inv_st0 G2) as I2.
  split; [apply I1|]. split; [apply I2|]. split; [apply I1|]. split; [apply I2|].
  split; [apply inv_determines; assumption|]. split; intros h; [apply (i_F _ I1 h)|apply (i_F _ I2 h)].
Qed.
