(* Evaluation of harness cases for C15. *)
From V Require Export lib.Verdict C15.Model.
Open Scope N_scope.

(* what the harness reads back from the real controller after the work queue is drained *)
Inductive obs := Obs
  (services : list (N * svcv))              (* Controller.Services(), projected *)
  (byip : list (N * list N))                (* PodCache.podsByIP *)
  (ipby : list (N * N))                     (* PodCache.ipByPods *)
  (rsy : list (N * list N))                 (* PodCache.needResync *)
  (cache : list (N * N * list ep))          (* endpointSliceCache: (svc, slice) -> endpoints, build order *)
  (shards : list (N * list ep))             (* EndpointIndex.Shardz(): svc -> endpoints of the registry shard, sorted *)
  (sas : list (N * list N))                 (* EndpointShards.ServiceAccounts *)
  (emits : list emit).                      (* ConfigUpdate calls of the controller, oldest first *)

(* one schedule run against the real controller; [ops] ends with the H steps that drained the queue.
   Every run is reported under two ids: [Corr] = correspondence only (does the model predict the run),
   [Conv] = property only (does the observed registry equal the cold-start result). *)
Inductive case :=
| Corr (id : N) (ops : list op) (o : obs)
| Conv (id : N) (ops : list op) (o : obs).
Definition case_id c := match c with Corr id _ _ => id | Conv id _ _ => id end.

Definition nlist_eqb := list_eqb N.eqb.
Definition svcv_eqb (a b : svcv) :=
  match a, b with Svc h1 x1 p1, Svc h2 x2 p2 => Bool.eqb h1 h2 && Bool.eqb x1 x2 && nlist_eqb p1 p2 end.
Definition eps_eqb := list_eqb ep_eqb.

Definition flat_cache (c : map (map (list ep))) : list (N * N * list ep) :=
  flat_map (fun hm => List.map (fun sl => (fst hm, fst sl, snd sl)) (snd hm)) c.

(* the observed shard must be a selection of the candidates: same key set, every element a candidate, no key twice *)
Fixpoint keys_nodup (l : list ep) : bool :=
  match l with [] => true | e :: l => negb (existsb (fun x => key_eqb (ep_key e) (ep_key x)) l) && keys_nodup l end.
Definition sel_ok (observed cands : list ep) : bool :=
  keys_nodup observed &&
  forallb (fun e => existsb (ep_eqb e) cands) observed &&
  forallb (fun c => existsb (fun e => key_eqb (ep_key e) (ep_key c)) observed) cands.

Definition shards_ok (sh : map shard) (o_sh : list (N * list ep)) (o_sas : list (N * list N)) : bool :=
  nlist_eqb (List.map fst sh) (List.map fst o_sh) &&
  nlist_eqb (List.map fst sh) (List.map fst o_sas) &&
  forallb (fun kv =>
    match snd kv with Shard cands sas fz =>
      sel_ok (getd [] (fst kv) o_sh) cands &&
      (match getd [] (fst kv) o_sh with
       | [] => fz || nlist_eqb sas (getd [] (fst kv) o_sas)
       | l => nlist_eqb (sas_of l) (getd [] (fst kv) o_sas)
       end)
    end) sh.

Definition cache_eqb (a b : list (N * N * list ep)) :=
  list_eqb (fun x y => (fst (fst x) =? fst (fst y)) && (snd (fst x) =? snd (fst y)) && eps_eqb (snd x) (snd y)) a b.

(* caches / services / shards of a model state against an observation (emits excluded) *)
Definition state_ok (s : st) (o : obs) : bool :=
  match o with Obs o_svc o_byip o_ipby o_rsy o_cache o_sh o_sas _ =>
    list_eqb (fun a b => (fst a =? fst b) && svcv_eqb (snd a) (snd b)) (smap s) o_svc &&
    list_eqb (fun a b => (fst a =? fst b) && nlist_eqb (snd a) (snd b)) (byip s) o_byip &&
    list_eqb (fun a b => (fst a =? fst b) && (snd a =? snd b)) (ipby s) o_ipby &&
    list_eqb (fun a b => (fst a =? fst b) && nlist_eqb (snd a) (snd b)) (rsy s) o_rsy &&
    cache_eqb (flat_cache (cache s)) o_cache &&
    shards_ok (shards s) o_sh o_sas
  end.

Definition emit_eqb (a b : emit) :=
  (fst a =? fst b) && list_eqb (fun x y => (fst x =? fst y) && (snd x =? snd y)) (snd a) (snd b).

(* correspondence: the model, run on the same schedule, ends in the observed state with the same pushes *)
Definition model_ok (c : case) : bool :=
  match c with
  | Conv _ _ _ => true
  | Corr _ ops o =>
      let s := run ops st0 in
      negb (bad s) && match q s with [] => true | _ => false end &&
      state_ok s o &&
      match o with Obs _ _ _ _ _ _ _ em => list_eqb emit_eqb (rev (emits s)) em end
  end.

(* final informer stores of a schedule: the writes only *)
Definition store_step (s : st) (o : op) : st :=
  match o with H _ => s | _ => set_q [] (step s o) end.
Definition final_store (ops : list op) : st := fold_left store_step ops st0.

(* every service version ever written for [h] *)
Definition svc_versions (ops : list op) (h : N) : list svcv :=
  flat_map (fun o => match o with WSv id (Some v) => if id =? h then [v] else [] | _ => [] end) ops.

(* spec for the headless-endpoint push keys, independent of timing: a DNSName-only key is justified only by
   a pure-HTTP version of the service, a ServiceEntry key only by a version with a non-HTTP port *)
Definition emit_ok (ops : list op) (e : emit) : bool :=
  if fst e =? 0 then
    forallb (fun kh =>
      let vs := svc_versions ops (snd kh) in
      if fst kh =? 1 then existsb (fun v => all_http (ports v)) vs
      else if fst kh =? 0 then existsb (fun v => negb (all_http (ports v))) vs
      else false) (snd e)
  else true.

(* the property: the observed registry state equals the cold-start result on the final objects *)
Definition prop_ok (c : case) : bool :=
  match c with
  | Corr _ _ _ => true
  | Conv _ ops o =>
      let f := final_store ops in
      state_ok (derive (sp f) (se f) (ss f)) o &&
      match o with Obs _ _ _ _ _ _ _ em => forallb (emit_ok ops) em end
  end.

Definition mismatches := check_all case_id model_ok prop_ok.

(* diagnosis for replays: which observed component differs from the cold-start result
   (1 services, 2 podsByIP, 3 ipByPods, 4 needResync, 5 endpointSliceCache, 6 shards/service accounts, 7 push keys) *)
Definition prop_diag (c : case) : list N :=
  match c with
  | Corr _ _ _ => []
  | Conv _ ops (Obs o_svc o_byip o_ipby o_rsy o_cache o_sh o_sas em) =>
      let f := final_store ops in
      let d := derive (sp f) (se f) (ss f) in
      (if list_eqb (fun a b => (fst a =? fst b) && svcv_eqb (snd a) (snd b)) (smap d) o_svc then [] else [1]) ++
      (if list_eqb (fun a b => (fst a =? fst b) && nlist_eqb (snd a) (snd b)) (byip d) o_byip then [] else [2]) ++
      (if list_eqb (fun a b => (fst a =? fst b) && (snd a =? snd b)) (ipby d) o_ipby then [] else [3]) ++
      (if list_eqb (fun a b => (fst a =? fst b) && nlist_eqb (snd a) (snd b)) (rsy d) o_rsy then [] else [4]) ++
      (if cache_eqb (flat_cache (cache d)) o_cache then [] else [5]) ++
      (if shards_ok (shards d) o_sh o_sas then [] else [6]) ++
      (if forallb (emit_ok ops) em then [] else [7])
  end.
