(* C15 — cold start: order (in)dependence of the initial add events, bounded-exhaustive domain.
   The statements are kept in boolean form over the explicit finite domain [clusters] x [perms (adds c)]
   (378 clusters, up to 120 orders each); they are closed by vm_compute. *)
From Coq Require Import List NArith Bool.
From V Require Import C15.Model C15.Proofs.
Import ListNotations.
Open Scope N_scope.

(* every order of the initial add events in which no service event follows a slice event ends in [derive] *)
Notation cold_check :=
  (forallb (fun c => forallb (fun p => implb (svc_first false p) (cold_ok c p)) (perms (adds c))) clusters).

Lemma cold_check_true : cold_check = true.
Proof. vm_cast_no_check (eq_refl true). Qed.

(* without "services first" the cold start is order dependent *)
Notation cold_bad := (existsb (fun c => existsb (fun p => negb (cold_ok c p)) (perms (adds c))) clusters).
Lemma cold_bad_true : cold_bad = true.
Proof. vm_cast_no_check (eq_refl true). Qed.

(* a concrete instance: pod, slice with a terminating endpoint, then the service *)
Definition wit_cluster :=
  Cluster (Some (Svc false false [0])) (Some (Pod 1 true false 0 1)) None (Some (Slice 0 1 [e0 2])) None.
Definition wit_perm :=
  [WPod 0 (Some (Pod 1 true false 0 1)); WSl 0 (Some (Slice 0 1 [e0 2])); WSv 0 (Some (Svc false false [0]))].
Lemma cold_order_dependent_witness :
  existsb (fun p => leqb (fun a b => match a, b with
                                     | WPod i _, WPod j _ | WSl i _, WSl j _ | WSv i _, WSv j _ => i =? j
                                     | _, _ => false end) p wit_perm) (perms (adds wit_cluster)) = true /\
  cold_ok wit_cluster wit_perm = false.
Proof. vm_compute. split; reflexivity. Qed.

Lemma cold_domain_size : List.length clusters = 378%nat.
Proof. vm_compute. reflexivity. Qed.
