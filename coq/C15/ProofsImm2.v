(* C15 — confluence for immediate-delivery schedules, part 2: effect of the slice handler on every field. *)
From Coq Require Import List NArith Bool Lia.
From V Require Import C15.Model C15.ProofsMap C15.ProofsIdx C15.ProofsImm1.
Import ListNotations.
Open Scope N_scope.

(* fields the slice handler never writes *)
Definition fr (s : st) := (sp s, se s, ss s, byip s, ipby s, smap s, q s, bad s).

Definition exn (s : st) (h : N) : bool := match get h (ss s) with Some v => exportnone v | None => false end.
Definition shard_cands (s : st) (h : N) : list ep := match get h (shards s) with Some (Shard c _ _) => c | None => [] end.
Definition shard_sas (s : st) (h : N) : list N := match get h (shards s) with Some (Shard _ a _) => a | None => [] end.

Definition soe_pre (s : st) (sid : N) (e : evt) (old : option slicev) (cur : slicev) : st :=
  match e with
  | Del => delete_slice s sid cur
  | _ => update_cache_for_slice (match e, old with Upd, Some o => cleanup_removed s sid o cur | _, _ => s end) sid cur
  end.

Lemma fr_update_cache s sid sl : fr (update_cache_for_slice s sid sl) = fr s.
Proof. destruct sl as [h np es]. unfold update_cache_for_slice. destruct (build_slice _ _ _ _ _ _ _). reflexivity. Qed.

Lemma fr_eds s h l : fr (eds_update s h l) = fr s.
Proof. unfold eds_update. destruct l; [destruct (get h (shards s)) as [[? ? ?]|]|]; reflexivity. Qed.

Lemma fr_soe_pre s sid e old cur : fr (soe_pre s sid e old cur) = fr s.
Proof.
  unfold soe_pre. destruct e; [rewrite fr_update_cache; destruct old; reflexivity|rewrite fr_update_cache; destruct old; reflexivity|reflexivity].
Qed.

Lemma soe_unfold s sid e old cur :
  slice_on_event s sid e old cur =
  let h := s_svc cur in
  let s1 := soe_pre s sid e old cur in
  let svc := get h (ss s1) in
  if match svc with Some v => exportnone v | None => false end then s1 else
  let s2 := eds_update s1 h (cache_get s1 h) in
  match svc with
  | Some v => if headless v then
                match get h (smap s2) with
                | Some conv => set_emits ((0, [((if all_http (ports conv) then 1 else 0), h)]) :: emits s2) s2
                | None => s2 end
              else s2
  | None => s2
  end.
Proof. unfold slice_on_event, soe_pre. destruct e; reflexivity. Qed.

Lemma fr_soe s sid e old cur : fr (slice_on_event s sid e old cur) = fr s.
Proof.
  rewrite soe_unfold. cbv zeta.
  set (s1 := soe_pre s sid e old cur). assert (H1 : fr s1 = fr s) by apply fr_soe_pre.
  destruct (match get (s_svc cur) (ss s1) with Some v => exportnone v | None => false end); [exact H1|].
  set (s2 := eds_update s1 _ _). assert (H2 : fr s2 = fr s) by (subst s2; rewrite fr_eds; exact H1).
  destruct (get (s_svc cur) (ss s1)) as [v|]; [|exact H2].
  destruct (headless v); [|exact H2]. destruct (get (s_svc cur) (smap s2)); exact H2.
Qed.

(* rsy and cache of the result are those of [soe_pre] *)
Lemma rc_eds s h l : rsy (eds_update s h l) = rsy s /\ cache (eds_update s h l) = cache s.
Proof. unfold eds_update. destruct l; [destruct (get h (shards s)) as [[? ? ?]|]|]; split; reflexivity. Qed.

Lemma rc_soe s sid e old cur :
  rsy (slice_on_event s sid e old cur) = rsy (soe_pre s sid e old cur) /\
  cache (slice_on_event s sid e old cur) = cache (soe_pre s sid e old cur).
Proof.
  rewrite soe_unfold. cbv zeta. set (s1 := soe_pre s sid e old cur).
  destruct (match get (s_svc cur) (ss s1) with Some v => exportnone v | None => false end); [split; reflexivity|].
  set (s2 := eds_update s1 _ _). assert (H2 : rsy s2 = rsy s1 /\ cache s2 = cache s1) by (subst s2; apply rc_eds).
  destruct (get (s_svc cur) (ss s1)) as [v|]; [|exact H2].
  destruct (headless v); [|exact H2]. destruct (get (s_svc cur) (smap s2)); exact H2.
Qed.

(* shards after eds_update *)
Lemma cands_eds s h l h' :
  shard_cands (eds_update s h l) h' = if h' =? h then l else shard_cands s h'.
Proof.
  unfold eds_update, shard_cands. destruct l as [|e l].
  - destruct (get h (shards s)) as [[c a f]|] eqn:G; st_simpl.
    + rewrite get_upd. destruct (h' =? h) eqn:E; reflexivity.
    + destruct (h' =? h) eqn:E; [|reflexivity]. apply N.eqb_eq in E. subst. rewrite G. reflexivity.
  - st_simpl. rewrite get_upd. destruct (h' =? h); reflexivity.
Qed.

Lemma sas_eds s h l h' : l <> [] ->
  shard_sas (eds_update s h l) h' = if h' =? h then sas_of (dedup [] l) else shard_sas s h'.
Proof.
  intros Hl. unfold eds_update, shard_sas. destruct l as [|e l]; [contradiction|].
  st_simpl. rewrite get_upd. destruct (h' =? h); reflexivity.
Qed.

Lemma sas_eds_other s h l h' : h' <> h -> shard_sas (eds_update s h l) h' = shard_sas s h'.
Proof.
  intros Hn. unfold eds_update, shard_sas. assert (E : h' =? h = false) by (apply N.eqb_neq; exact Hn).
  destruct l as [|e l]; [destruct (get h (shards s)) as [[c a f]|]|]; st_simpl; rewrite ?get_upd, ?E; reflexivity.
Qed.

Lemma shards_set_emits e s : shards (set_emits e s) = shards s. Proof. reflexivity. Qed.

Lemma shards_soe s sid e old cur :
  let h := s_svc cur in let s1 := soe_pre s sid e old cur in
  shards (slice_on_event s sid e old cur) =
  if exn s h then shards s1 else shards (eds_update s1 h (cache_get s1 h)).
Proof.
  cbv zeta. rewrite soe_unfold. cbv zeta. set (s1 := soe_pre s sid e old cur).
  assert (Hss : ss s1 = ss s) by (pose proof (fr_soe_pre s sid e old cur) as H; unfold fr in H; fold s1 in H; congruence).
  unfold exn. rewrite Hss.
  destruct (get (s_svc cur) (ss s)) as [v|] eqn:G.
  - destruct (exportnone v); [reflexivity|]. destruct (headless v); [|reflexivity].
    destruct (get (s_svc cur) (smap _)); reflexivity.
  - reflexivity.
Qed.

(* delete_slice / update_cache: pointwise effect on the slice cache *)
Lemma cache_del_get (c : map (map (list ep))) h sid h' sid' :
  get sid' (getd [] h' (match get h c with
                        | None => c
                        | Some m => match del sid m with [] => del h c | m' => upd h m' c end
                        end)) =
  if (h' =? h) && (sid' =? sid) then None else get sid' (getd [] h' c).
Proof.
  destruct (get h c) as [m|] eqn:G.
  - pose proof (getd_some [] h c m G) as Hg.
    destruct (del sid m) as [|x m'] eqn:D.
    + rewrite getd_del. destruct (h' =? h) eqn:E; cbn [andb]; [|reflexivity].
      apply N.eqb_eq in E. subst h'. rewrite Hg. cbn [get].
      destruct (sid' =? sid) eqn:E2; [reflexivity|].
      assert (H : get sid' (del sid m) = get sid' m) by (rewrite get_del, E2; reflexivity).
      rewrite D in H. cbn in H. exact H.
    + rewrite getd_upd. destruct (h' =? h) eqn:E; cbn [andb]; [|reflexivity].
      apply N.eqb_eq in E. subst h'. rewrite <- D, get_del, Hg. reflexivity.
  - pose proof (getd_none [] h c G) as Hg.
    destruct (h' =? h) eqn:E; cbn [andb]; [|reflexivity].
    apply N.eqb_eq in E. subst h'. rewrite Hg. cbn [get]. destruct (sid' =? sid); reflexivity.
Qed.

Lemma cache_upd_get (c : map (map (list ep))) h sid l h' sid' :
  get sid' (getd [] h' (upd h (upd sid l (getd [] h c)) c)) =
  if (h' =? h) && (sid' =? sid) then Some l else get sid' (getd [] h' c).
Proof.
  rewrite getd_upd. destruct (h' =? h) eqn:E; cbn [andb]; [|reflexivity].
  apply N.eqb_eq in E. subst h'. rewrite get_upd. reflexivity.
Qed.

(* update_cache_for_slice, explicitly *)
Lemma ucs_fields s sid h np es :
  let s' := update_cache_for_slice s sid (Slice h np es) in
  (forall x ip, smem x (getd [] ip (rsy s')) = smem x (getd [] ip (rsy s)) || ((x =? sid) && reg_at (sp s) es ip)) /\
  (forall h' sid', get sid' (getd [] h' (cache s')) =
     if (h' =? h) && (sid' =? sid) then Some (d_slice_eps (sp s) (byip s) (get h (smap s)) np es)
     else get sid' (getd [] h' (cache s))).
Proof.
  cbv zeta. unfold update_cache_for_slice.
  pose proof (build_slice_snd (sp s) (byip s) (get h (smap s)) sid np es (rsy s)) as Hs.
  pose proof (build_slice_fst (sp s) (byip s) (get h (smap s)) sid np es (rsy s)) as Hf.
  destruct (build_slice (sp s) (byip s) (get h (smap s)) sid np es (rsy s)) as [r l]. cbn [fst snd] in *. subst l.
  st_simpl. split; [exact Hf|]. intros h' sid'. apply cache_upd_get.
Qed.
