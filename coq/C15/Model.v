(* C15 — executable model of the Kubernetes registry's hand-written caches.
   Anchors (pilot/pkg/serviceregistry/kube/controller):
     controller.go     registerHandlers (wrappedHandler re-reads the informer store), onServiceEvent,
                       addOrUpdateService, deleteService, recomputeServiceForPod, buildEndpointsForService
     pod.go            PodCache.onEvent, addPod, deleteIP, queueEndpointEventOnPodArrival, endpointDeleted
     endpointslice.go  onEventInternal, deleteEndpointSlice, cleanupRemovedEndpoints,
                       updateEndpointCacheForSlice, endpointSliceCache.{update,delete,get}, pushEDS, getPod, podArrived
     model/endpointshards.go  UpdateServiceEndpoints / DeleteServiceShard (only: shard content + service accounts)
   The informer stores are a separately evolving object map ([sp], [se], [ss]); every API write also
   appends the informer event to the single work queue [q] (queue.Instance), handlers run when the
   harness (or the schedule) pops the queue head. *)
From Coq Require Import List NArith Bool.
Import ListNotations.
Open Scope N_scope.

(* ------------------------------------------------------------------ finite maps / sets over N *)
Definition map (A : Type) := list (N * A).

Fixpoint get {A} (k : N) (m : map A) : option A :=
  match m with
  | [] => None
  | (k', v) :: m => if k =? k' then Some v else get k m
  end.

Fixpoint upd {A} (k : N) (v : A) (m : map A) : map A :=
  match m with
  | [] => [(k, v)]
  | (k', v') :: m' =>
      if k =? k' then (k, v) :: m'
      else if k <? k' then (k, v) :: m
      else (k', v') :: upd k v m'
  end.

Fixpoint del {A} (k : N) (m : map A) : map A :=
  match m with
  | [] => []
  | (k', v') :: m' => if k =? k' then del k m' else (k', v') :: del k m'
  end.

Definition getd {A} (d : A) (k : N) (m : map A) : A :=
  match get k m with Some v => v | None => d end.

Fixpoint smem (x : N) (s : list N) : bool :=
  match s with [] => false | y :: s => (x =? y) || smem x s end.

Fixpoint sadd (x : N) (s : list N) : list N :=
  match s with
  | [] => [x]
  | y :: s' => if x =? y then s else if x <? y then x :: s else y :: sadd x s'
  end.

Fixpoint sdel (x : N) (s : list N) : list N :=
  match s with [] => [] | y :: s' => if x =? y then sdel x s' else y :: sdel x s' end.
(* remove the first occurrence (multiset difference, for [is_perm]) *)
Fixpoint rem1 (x : N) (s : list N) : list N :=
  match s with [] => [] | y :: s' => if x =? y then s' else y :: rem1 x s' end.

(* sets.InsertOrNew *)
Definition madd (k x : N) (m : map (list N)) : map (list N) := upd k (sadd x (getd [] k m)) m.
(* sets.DeleteCleanupLast *)
Definition mdel (k x : N) (m : map (list N)) : map (list N) :=
  match get k m with
  | None => m
  | Some s => match sdel x s with [] => del k m | s' => upd k s' m end
  end.

(* ------------------------------------------------------------------ objects *)
(* Pod: ip (0 = none), Ready condition, deletionTimestamp set, label app=a<lbl>, service account *)
Inductive podv := Pod (ip : N) (ready term : bool) (lbl sa : N).
(* slice endpoint: address, targetRef (pod id) or none, cond 0 ready / 1 not ready / 2 terminating *)
Inductive epv := Ep (ip : N) (ref : option N) (cond : N).
Inductive slicev := Slice (svc : N) (nports : N) (eps : list epv).
(* service: headless, exportTo "~", port protocol classes (0 http, 1 tcp, 2 other); selector app=a<id> *)
Inductive svcv := Svc (headless exportnone : bool) (ports : list N).

(* converted endpoint: address, service port (index), service account (0 none), label (0 none, lbl+1), health *)
Inductive ep := E (ip port sa lbl health : N).

Definition p_ip p := match p with Pod ip _ _ _ _ => ip end.
Definition p_lbl p := match p with Pod _ _ _ l _ => l end.
Definition p_sa p := match p with Pod _ _ _ _ s => s end.
(* shouldPodBeInEndpoints && IsPodReady (phase is never terminal in the generated histories) *)
Definition elig p := match p with Pod ip r t _ _ => negb (ip =? 0) && r && negb t end.
Definition s_svc s := match s with Slice v _ _ => v end.
Definition s_eps s := match s with Slice _ _ e => e end.
Definition e_ip e := match e with Ep ip _ _ => ip end.
Definition headless s := match s with Svc h _ _ => h end.
Definition exportnone s := match s with Svc _ x _ => x end.
Definition ports s := match s with Svc _ _ p => p end.

Inductive evt := Add | Upd | Del.
Inductive task :=
| TPod (id : N) (e : evt) (old : option podv) (cur : podv)
| TSl (id : N) (e : evt) (old : option slicev) (cur : slicev)
| TSv (id : N) (e : evt) (old : option svcv) (cur : svcv)
| TReq (sid : N).

(* ConfigUpdate issued by the controller itself: reason 0 HeadlessEndpointUpdate / 1 EndpointUpdate;
   keys (kind, svc): kind 0 ServiceEntry, 1 DNSName, 2 Endpoints *)
Definition emit := (N * list (N * N))%type.

(* EndpointShards of one service for this registry: candidates (concatenation over the slices, before the
   key dedup of endpointSliceCache.get whose winner depends on Go map order), service accounts, and
   whether conflicting duplicates were ever published *)
Inductive shard := Shard (cands : list ep) (sas : list N) (fuzzy : bool).

Record st := mkSt {
  sp : map podv; se : map slicev; ss : map svcv;          (* informer stores *)
  byip : map (list N); ipby : map N; rsy : map (list N);  (* PodCache: podsByIP, ipByPods, needResync *)
  cache : map (map (list ep));                            (* endpointSliceCache: svc -> slice -> endpoints *)
  smap : map svcv;                                        (* Controller.servicesMap (projection of the conversion) *)
  shards : map shard;                                     (* EndpointIndex, this registry's shard *)
  q : list task;                                          (* Controller.queue *)
  emits : list emit;                                      (* ConfigUpdate calls, newest first *)
  bad : bool                                              (* observed requeue order was not a permutation of the model's *)
}.

Definition st0 := mkSt [] [] [] [] [] [] [] [] [] [] [] false.

Definition set_sp v s := mkSt v (se s) (ss s) (byip s) (ipby s) (rsy s) (cache s) (smap s) (shards s) (q s) (emits s) (bad s).
Definition set_se v s := mkSt (sp s) v (ss s) (byip s) (ipby s) (rsy s) (cache s) (smap s) (shards s) (q s) (emits s) (bad s).
Definition set_ss v s := mkSt (sp s) (se s) v (byip s) (ipby s) (rsy s) (cache s) (smap s) (shards s) (q s) (emits s) (bad s).
Definition set_byip v s := mkSt (sp s) (se s) (ss s) v (ipby s) (rsy s) (cache s) (smap s) (shards s) (q s) (emits s) (bad s).
Definition set_ipby v s := mkSt (sp s) (se s) (ss s) (byip s) v (rsy s) (cache s) (smap s) (shards s) (q s) (emits s) (bad s).
Definition set_rsy v s := mkSt (sp s) (se s) (ss s) (byip s) (ipby s) v (cache s) (smap s) (shards s) (q s) (emits s) (bad s).
Definition set_cache v s := mkSt (sp s) (se s) (ss s) (byip s) (ipby s) (rsy s) v (smap s) (shards s) (q s) (emits s) (bad s).
Definition set_smap v s := mkSt (sp s) (se s) (ss s) (byip s) (ipby s) (rsy s) (cache s) v (shards s) (q s) (emits s) (bad s).
Definition set_shards v s := mkSt (sp s) (se s) (ss s) (byip s) (ipby s) (rsy s) (cache s) (smap s) v (q s) (emits s) (bad s).
Definition set_q v s := mkSt (sp s) (se s) (ss s) (byip s) (ipby s) (rsy s) (cache s) (smap s) (shards s) v (emits s) (bad s).
Definition set_emits v s := mkSt (sp s) (se s) (ss s) (byip s) (ipby s) (rsy s) (cache s) (smap s) (shards s) (q s) v (bad s).
Definition set_bad v s := mkSt (sp s) (se s) (ss s) (byip s) (ipby s) (rsy s) (cache s) (smap s) (shards s) (q s) (emits s) v.

(* ------------------------------------------------------------------ endpoint building *)
(* endpointHealthStatus (no persistent-session label): Healthy 1, UnHealthy 2, Terminating 4 *)
Definition health_of (svc : option svcv) (cond : N) : N :=
  if cond =? 0 then 1
  else if cond =? 2 then match svc with Some _ => 4 | None => 2 end
  else 2.

Fixpoint ports_upto (n : nat) : list N :=
  match n with O => [] | S n' => ports_upto n' ++ [N.of_nat n'] end.

(* builder.buildIstioEndpoint for every slice port *)
Definition build_eps (ip : N) (nports : N) (pod : option podv) (h : N) : list ep :=
  let sa := match pod with Some p => p_sa p | None => 0 end in
  let lbl := match pod with Some p => p_lbl p + 1 | None => 0 end in
  List.map (fun pt => E ip pt sa lbl h) (ports_upto (N.to_nat nports)).

(* Controller.getPod for an address without targetRef: first cached pod key for the IP that is still in the store *)
Fixpoint first_pod (sp : map podv) (ids : list N) : option podv :=
  match ids with
  | [] => None
  | i :: ids => match get i sp with Some p => Some p | None => first_pod sp ids end
  end.

(* the per-endpoint loop of updateEndpointCacheForSlice: returns (needResync', endpoints) *)
Fixpoint build_slice (sp : map podv) (byip : map (list N)) (svc : option svcv) (sid nports : N)
         (es : list epv) (rsy : map (list N)) : map (list N) * list ep :=
  match es with
  | [] => (rsy, [])
  | Ep ip ref cond :: es =>
      let h := health_of svc cond in
      match ref with
      | Some pid =>
          match get pid sp with
          | None => (* expected pod missing: registerEndpointResync, skip *)
              build_slice sp byip svc sid nports es (madd ip sid rsy)
          | Some p =>
              let '(r, l) := build_slice sp byip svc sid nports es rsy in
              (r, build_eps ip nports (Some p) h ++ l)
          end
      | None =>
          let pod := first_pod sp (getd [] ip byip) in
          let '(r, l) := build_slice sp byip svc sid nports es rsy in
          (r, build_eps ip nports pod h ++ l)
      end
  end.

(* updateEndpointCacheForSlice(hostName, slice) + endpointSliceCache.Update *)
Definition update_cache_for_slice (s : st) (sid : N) (sl : slicev) : st :=
  match sl with
  | Slice h nports es =>
      let '(r, l) := build_slice (sp s) (byip s) (get h (smap s)) sid nports es (rsy s) in
      set_cache (upd h (upd sid l (getd [] h (cache s))) (cache s)) (set_rsy r s)
  end.

(* endpointSliceCache.get before dedup: candidates in slice order *)
Definition cache_get (s : st) (h : N) : list ep :=
  flat_map snd (getd [] h (cache s)).

Definition ep_key e := match e with E ip pt _ _ _ => (ip, pt) end.
Definition key_eqb (a b : N * N) := (fst a =? fst b) && (snd a =? snd b).
Definition ep_eqb (a b : ep) :=
  match a, b with E a1 a2 a3 a4 a5, E b1 b2 b3 b4 b5 => (a1 =? b1) && (a2 =? b2) && (a3 =? b3) && (a4 =? b4) && (a5 =? b5) end.

Fixpoint dedup (seen : list (N * N)) (l : list ep) : list ep :=
  match l with
  | [] => []
  | e :: l => if existsb (key_eqb (ep_key e)) seen then dedup seen l else e :: dedup (ep_key e :: seen) l
  end.

Definition conflict (l : list ep) : bool :=
  existsb (fun a => existsb (fun b => key_eqb (ep_key a) (ep_key b) && negb (ep_eqb a b)) l) l.

Definition sas_of (l : list ep) : list N :=
  fold_right (fun e acc => match e with E _ _ sa _ _ => if sa =? 0 then acc else sadd sa acc end) [] l.

(* EndpointIndex.UpdateServiceEndpoints for this registry's shard (EDSUpdate and EDSCacheUpdate alike) *)
Definition eds_update (s : st) (h : N) (l : list ep) : st :=
  match l with
  | [] => (* DeleteServiceShard(preserveKeys = true): the entry and its ServiceAccounts stay *)
      match get h (shards s) with
      | Some (Shard _ sas f) => set_shards (upd h (Shard [] sas f) (shards s)) s
      | None => s
      end
  | _ =>
      let f0 := match get h (shards s) with Some (Shard _ _ f) => f | None => false end in
      set_shards (upd h (Shard l (sas_of (dedup [] l)) (f0 || conflict l)) (shards s)) s
  end.

(* ------------------------------------------------------------------ PodCache *)
Definition delete_ip (s : st) (ip id : N) : st :=
  if smem id (getd [] ip (byip s)) then set_ipby (del id (ipby s)) (set_byip (mdel ip id (byip s)) s) else s.

Fixpoint is_perm (a b : list N) : bool :=
  match a with
  | [] => match b with [] => true | _ => false end
  | x :: a => smem x b && is_perm a (rem1 x b)
  end.

Definition slices_of (s : st) (h : N) : list (N * slicev) :=
  filter (fun kv => s_svc (snd kv) =? h) (se s).

(* recomputeServiceForPod: services are selected by app=a<id>, so at most service [lbl] matches *)
Definition recompute_service_for_pod (s : st) (p : podv) : st :=
  let h := p_lbl p in
  match get h (ss s) with
  | None => s
  | Some _ =>
      match get h (smap s) with
      | None => s
      | Some _ =>
          let sls := slices_of s h in
          let s1 := match sls with
                    | [] => s
                    | _ => let s' := fold_left (fun a kv => update_cache_for_slice a (fst kv) (snd kv)) sls s in
                           match cache_get s' h with [] => s' | l => eds_update s' h l end
                    end in
          set_emits ((1, [(2, h)]) :: emits s1) s1
      end
  end.

Definition add_pod (s : st) (p : podv) (ip id : N) (label_updated : bool) (spawned : list N) : st :=
  if smem id (getd [] ip (byip s)) then
    (if label_updated then recompute_service_for_pod s p else s)
  else
    let b1 := match get id (ipby s) with Some cur => mdel cur id (byip s) | None => byip s end in
    let s1 := set_ipby (upd id ip (ipby s)) (set_byip (madd ip id b1) s) in
    match get ip (rsy s1) with
    | Some l =>
        let s2 := set_rsy (del ip (rsy s1)) s1 in
        let s3 := if is_perm spawned l then s2 else set_bad true s2 in
        set_q (q s3 ++ List.map TReq spawned) s3
    | None => if match spawned with [] => true | _ => false end then s1 else set_bad true s1
    end.

Definition lbl_changed (old : option podv) (p : podv) : bool :=
  match old with Some o => negb (p_lbl o =? p_lbl p) | None => false end.

(* PodCache.onEvent *)
Definition pod_on_event (s : st) (id : N) (e : evt) (old : option podv) (p : podv) (spawned : list N) : st :=
  let ip := if p_ip p =? 0 then getd 0 id (ipby s) else p_ip p in
  if ip =? 0 then s else
  match e with
  | Add => if elig p then add_pod s p ip id false spawned else s
  | Upd => if negb (elig p) then delete_ip s ip id else add_pod s p ip id (lbl_changed old p) spawned
  | Del => delete_ip s ip id
  end.

(* ------------------------------------------------------------------ endpoint slices *)
Definition delete_slice (s : st) (sid : N) (sl : slicev) : st :=
  let r := fold_left (fun r e => mdel (e_ip e) sid r) (s_eps sl) (rsy s) in
  let h := s_svc sl in
  let c := match get h (cache s) with
           | None => cache s
           | Some m => match del sid m with [] => del h (cache s) | m' => upd h m' (cache s) end
           end in
  set_cache c (set_rsy r s).

Definition cleanup_removed (s : st) (sid : N) (old cur : slicev) : st :=
  let curaddrs := List.map e_ip (s_eps cur) in
  set_rsy (fold_left (fun r e => if smem (e_ip e) curaddrs then r else mdel (e_ip e) sid r) (s_eps old) (rsy s)) s.

Definition all_http (ps : list N) : bool := forallb (fun c => c =? 0) ps.

(* endpointSliceController.onEventInternal *)
Definition slice_on_event (s : st) (sid : N) (e : evt) (old : option slicev) (cur : slicev) : st :=
  let h := s_svc cur in
  let s1 := match e with
            | Del => delete_slice s sid cur
            | _ => let s0 := match e, old with Upd, Some o => cleanup_removed s sid o cur | _, _ => s end in
                   update_cache_for_slice s0 sid cur
            end in
  let svc := get h (ss s1) in
  if match svc with Some v => exportnone v | None => false end then s1 else
  let s2 := eds_update s1 h (cache_get s1 h) in
  match svc with
  | Some v =>
      if headless v then
        match get h (smap s2) with
        | Some conv => set_emits ((0, [((if all_http (ports conv) then 1 else 0), h)]) :: emits s2) s2
        | None => s2
        end
      else s2
  | None => s2
  end.

(* ------------------------------------------------------------------ services *)
Definition svc_on_event (s : st) (id : N) (e : evt) (cur : svcv) : st :=
  match e with
  | Del => set_shards (del id (shards s)) (set_smap (del id (smap s)) s)
  | _ =>
      let s1 := set_smap (upd id cur (smap s)) s in
      match slices_of s1 id with
      | [] => s1
      | _ => match cache_get s1 id with [] => s1 | l => eds_update s1 id l end
      end
  end.

(* ------------------------------------------------------------------ work queue *)
(* registerHandlers.wrappedHandler: add/update re-read the object from the informer store and are
   dropped when it is gone; delete uses the event's object. *)
Definition run_task (s : st) (t : task) (spawned : list N) : st :=
  match t with
  | TPod id Del old cur => pod_on_event s id Del None cur spawned
  | TPod id e old _ => match get id (sp s) with Some cur => pod_on_event s id e old cur spawned | None => s end
  | TSl id Del old cur => slice_on_event s id Del None cur
  | TSl id e old _ => match get id (se s) with Some cur => slice_on_event s id e old cur | None => s end
  | TSv id Del old cur => svc_on_event s id Del cur
  | TSv id e old _ => match get id (ss s) with Some cur => svc_on_event s id e cur | None => s end
  | TReq sid => (* podArrived *)
      match get sid (se s) with Some cur => slice_on_event s sid Add None cur | None => s end
  end.

Inductive op :=
| WPod (id : N) (v : option podv)      (* API write reaches the informer: store updated, event queued *)
| WSl (id : N) (v : option slicev)
| WSv (id : N) (v : option svcv)
| H (spawned : list N).                (* run the head of the work queue *)

Definition write {A} (mk : N -> evt -> option A -> A -> task) (id : N) (v : option A) (m : map A)
  : map A * list task :=
  match v, get id m with
  | Some x, Some o => (upd id x m, [mk id Upd (Some o) x])
  | Some x, None => (upd id x m, [mk id Add None x])
  | None, Some o => (del id m, [mk id Del None o])
  | None, None => (m, [])
  end.

Definition step (s : st) (o : op) : st :=
  match o with
  | WPod id v => let '(m, t) := write TPod id v (sp s) in set_q (q s ++ t) (set_sp m s)
  | WSl id v => let '(m, t) := write TSl id v (se s) in set_q (q s ++ t) (set_se m s)
  | WSv id v => let '(m, t) := write TSv id v (ss s) in set_q (q s ++ t) (set_ss m s)
  | H spawned =>
      match q s with
      | [] => s
      | t :: rest => run_task (set_q rest s) t spawned
      end
  end.

Definition run (ops : list op) (s : st) : st := fold_left step ops s.

(* ------------------------------------------------------------------ the cold-start result *)
(* [derive] is written directly from the final objects (no handlers): what a controller that sees the
   services, then the pods, then the slices of the final cluster ends with. *)
Definition d_byip (sp : map podv) : map (list N) :=
  fold_left (fun m kv => if elig (snd kv) then madd (p_ip (snd kv)) (fst kv) m else m) sp [].
Definition d_ipby (sp : map podv) : map N :=
  fold_left (fun m kv => if elig (snd kv) then upd (fst kv) (p_ip (snd kv)) m else m) sp [].

Fixpoint d_slice_rsy (sp : map podv) (sid : N) (es : list epv) (r : map (list N)) : map (list N) :=
  match es with
  | [] => r
  | Ep ip (Some pid) _ :: es =>
      d_slice_rsy sp sid es (match get pid sp with None => madd ip sid r | Some _ => r end)
  | _ :: es => d_slice_rsy sp sid es r
  end.
Definition d_rsy (sp : map podv) (se : map slicev) : map (list N) :=
  fold_left (fun r kv => d_slice_rsy sp (fst kv) (s_eps (snd kv)) r) se [].

Fixpoint d_slice_eps (sp : map podv) (byip : map (list N)) (svc : option svcv) (nports : N) (es : list epv) : list ep :=
  match es with
  | [] => []
  | Ep ip (Some pid) cond :: es =>
      match get pid sp with
      | None => d_slice_eps sp byip svc nports es
      | Some p => build_eps ip nports (Some p) (health_of svc cond) ++ d_slice_eps sp byip svc nports es
      end
  | Ep ip None cond :: es =>
      build_eps ip nports (first_pod sp (getd [] ip byip)) (health_of svc cond) ++ d_slice_eps sp byip svc nports es
  end.

Definition d_cache (sp : map podv) (se : map slicev) (ss : map svcv) : map (map (list ep)) :=
  fold_left (fun c kv =>
    match snd kv with Slice h np es =>
      upd h (upd (fst kv) (d_slice_eps sp (d_byip sp) (get h ss) np es) (getd [] h c)) c end) se [].

Definition d_shards (sp : map podv) (se : map slicev) (ss : map svcv) : map shard :=
  fold_left (fun m hc =>
     let h := fst hc in
     if match get h ss with Some v => exportnone v | None => false end then m else
     match flat_map snd (snd hc) with
     | [] => m
     | l => upd h (Shard l (sas_of (dedup [] l)) (conflict l)) m
     end) (d_cache sp se ss) [].

Definition derive (sp : map podv) (se : map slicev) (ss : map svcv) : st :=
  mkSt sp se ss (d_byip sp) (d_ipby sp) (d_rsy sp se) (d_cache sp se ss) ss (d_shards sp se ss) [] [] false.

(* the canonical cold-start schedule: all objects are in the informer stores, then services, pods,
   slices are handled in that order, then the queue is drained *)
Definition cold_writes (sp : map podv) (se : map slicev) (ss : map svcv) : list op :=
  List.map (fun kv => WSv (fst kv) (Some (snd kv))) ss ++
  List.map (fun kv => WPod (fst kv) (Some (snd kv))) sp ++
  List.map (fun kv => WSl (fst kv) (Some (snd kv))) se.
