(* C15 — confluence for immediate-delivery schedules, part 3: the invariant and the handlers' effect on it. *)
From Coq Require Import List NArith Bool Lia.
From V Require Import C15.Model C15.Proofs C15.ProofsMap C15.ProofsIdx C15.ProofsImm1 C15.ProofsImm2.
Import ListNotations.
Open Scope N_scope.

(* ------------------------------------------------------------------ the invariant of quiescent states *)
Definition specA (s : st) := forall id ip, smem id (getd [] ip (byip s)) =
  match get id (sp s) with Some p => elig p && (p_ip p =? ip) | None => false end.
Definition specB (s : st) := forall id, get id (ipby s) =
  match get id (sp s) with Some p => if elig p then Some (p_ip p) else None | None => None end.
Definition specC (s : st) := forall h, get h (smap s) = get h (ss s).
Definition specG (s : st) := forall sid h np es, get sid (se s) = Some (Slice h np es) -> all_ref es = true.
(* needResync holds exactly the (address, slice) pairs whose expected pod is missing from the store *)
Definition Dsid (s : st) (sid : N) := forall ip, smem sid (getd [] ip (rsy s)) =
  match get sid (se s) with Some v => reg_at (sp s) (s_eps v) ip | None => false end.
(* the slice cache holds the conversion of the stored slice against the current stores *)
Definition Esid (s : st) (sid : N) := forall h, get sid (getd [] h (cache s)) =
  match get sid (se s) with
  | Some (Slice h' np es) => if h' =? h then Some (d_slice_eps (sp s) [] (get h (ss s)) np es) else None
  | None => None
  end.
Definition specF (s : st) := forall h,
  shard_cands s h = (if exn s h then [] else cache_get s h) /\
  (shard_cands s h <> [] -> shard_sas s h = sas_of (dedup [] (shard_cands s h))).

Record Inv (s : st) : Prop := {
  i_q : q s = []; i_bad : bad s = false;
  i_A : specA s; i_B : specB s; i_C : specC s; i_G : specG s;
  i_D : forall sid, Dsid s sid; i_E : forall sid, Esid s sid; i_F : specF s }.

(* ------------------------------------------------------------------ shards follow the slice cache *)
Lemma shards_soe_pre s sid e old cur : shards (soe_pre s sid e old cur) = shards s.
Proof.
  unfold soe_pre. destruct e; try reflexivity;
    (destruct cur as [h np es]; unfold update_cache_for_slice; destruct (build_slice _ _ _ _ _ _ _); destruct old; reflexivity).
Qed.

Lemma cache_soe_pre_other s sid e old cur h' : h' <> s_svc cur ->
  getd [] h' (cache (soe_pre s sid e old cur)) = getd [] h' (cache s).
Proof.
  intros Hn. assert (E : h' =? s_svc cur = false) by (apply N.eqb_neq; exact Hn).
  unfold soe_pre. destruct e.
  - destruct cur as [h np es]. cbn [s_svc] in *. unfold update_cache_for_slice. destruct (build_slice _ _ _ _ _ _ _).
    st_simpl. rewrite getd_upd, E. reflexivity.
  - destruct cur as [h np es]. cbn [s_svc] in *. unfold update_cache_for_slice. destruct (build_slice _ _ _ _ _ _ _).
    st_simpl. rewrite getd_upd, E. destruct old; reflexivity.
  - unfold delete_slice. st_simpl. destruct (get (s_svc cur) (cache s)) as [m|]; [|reflexivity].
    destruct (del sid m); [rewrite getd_del|rewrite getd_upd]; rewrite E; reflexivity.
Qed.

Lemma F_soe s sid e old cur : specF s -> specF (slice_on_event s sid e old cur).
Proof.
  intros HF h'. set (s' := slice_on_event s sid e old cur). set (h := s_svc cur). set (s1 := soe_pre s sid e old cur).
  assert (Hfr : fr s' = fr s) by apply fr_soe. unfold fr in Hfr.
  assert (Hss : ss s' = ss s) by congruence.
  assert (Hc : cache s' = cache s1) by apply rc_soe.
  assert (Hex : forall k, exn s' k = exn s k) by (intros k; unfold exn; rewrite Hss; reflexivity).
  assert (Hcg : forall k, cache_get s' k = flat_map snd (getd [] k (cache s1))) by (intros k; unfold cache_get; rewrite Hc; reflexivity).
  assert (Hsh : shards s' = if exn s h then shards s1 else shards (eds_update s1 h (cache_get s1 h))) by apply shards_soe.
  assert (Hs1 : shards s1 = shards s) by apply shards_soe_pre.
  destruct (HF h') as [HF1 HF2]. rewrite Hex.
  destruct (h' =? h) eqn:E.
  - apply N.eqb_eq in E. subst h'. destruct (exn s h) eqn:X.
    + assert (Hc' : shard_cands s' h = shard_cands s h) by (unfold shard_cands; rewrite Hsh, Hs1; reflexivity).
      rewrite Hc'. split; [exact HF1|]. intros Hne. rewrite HF1 in Hne. contradiction.
    + assert (Hc' : shard_cands s' h = cache_get s1 h).
      { unfold shard_cands at 1. rewrite Hsh. fold (shard_cands (eds_update s1 h (cache_get s1 h)) h).
        rewrite cands_eds, N.eqb_refl. reflexivity. }
      rewrite Hc'. split; [rewrite Hcg; reflexivity|]. intros Hne.
      unfold shard_sas. rewrite Hsh. fold (shard_sas (eds_update s1 h (cache_get s1 h)) h).
      rewrite (sas_eds _ _ _ _ Hne), N.eqb_refl. reflexivity.
  - assert (Hn : h' <> h) by (apply N.eqb_neq; exact E).
    assert (Hg : cache_get s' h' = cache_get s h').
    { rewrite Hcg. unfold cache_get. subst s1 h. rewrite cache_soe_pre_other; [reflexivity|exact Hn]. }
    assert (Hc' : shard_cands s' h' = shard_cands s h' /\ shard_sas s' h' = shard_sas s h').
    { destruct (exn s h).
      - unfold shard_cands, shard_sas. rewrite Hsh, Hs1. split; reflexivity.
      - split.
        + unfold shard_cands at 1. rewrite Hsh. fold (shard_cands (eds_update s1 h (cache_get s1 h)) h').
          rewrite cands_eds, E. unfold shard_cands. rewrite Hs1. reflexivity.
        + unfold shard_sas at 1. rewrite Hsh. fold (shard_sas (eds_update s1 h (cache_get s1 h)) h').
          rewrite sas_eds_other by exact Hn. unfold shard_sas. rewrite Hs1. reflexivity. }
    destruct Hc' as [Hc1 Hc2]. rewrite Hc1, Hc2, Hg. split; [exact HF1|exact HF2].
Qed.

(* ------------------------------------------------------------------ PodCache handler, field by field *)
(* fields the pod handler never writes (no label edit, hence no recompute) *)
Definition fp (s : st) := (sp s, se s, ss s, cache s, smap s, shards s).

Lemma del_absent {A} k (m : map A) : get k m = None -> del k m = m.
Proof.
  induction m as [|[k' v] m IH]; cbn [get del]; [reflexivity|].
  destruct (k =? k'); [discriminate|]. intros H. rewrite (IH H). reflexivity.
Qed.

Lemma add_pod_fire s p ip id :
  smem id (getd [] ip (byip s)) = false -> get id (ipby s) = None ->
  let l := getd [] ip (rsy s) in
  let s' := add_pod s p ip id false l in
  fp s' = fp s /\ byip s' = madd ip id (byip s) /\ ipby s' = upd id ip (ipby s) /\
  (forall x ip', smem x (getd [] ip' (rsy s')) = if ip' =? ip then false else smem x (getd [] ip' (rsy s))) /\
  q s' = q s ++ List.map TReq l /\ bad s' = bad s.
Proof.
  intros Hm Hi. cbv zeta. unfold add_pod. rewrite Hm, Hi. st_simpl.
  destruct (get ip (rsy s)) as [l0|] eqn:G.
  - rewrite (getd_some [] ip (rsy s) l0 G). rewrite is_perm_refl.
    st_simpl. repeat split; try reflexivity.
    intros x ip'. rewrite getd_del. destruct (ip' =? ip); reflexivity.
  - rewrite (getd_none [] ip (rsy s) G). cbn [List.map]. st_simpl. rewrite app_nil_r. repeat split; try reflexivity.
    intros x ip'. destruct (ip' =? ip) eqn:E; [|reflexivity]. apply N.eqb_eq in E. subst ip'.
    rewrite (getd_none [] ip (rsy s) G). reflexivity.
Qed.
