(* Evaluation of harness cases for C02.
   model_ok : the model predicts what the real code was observed to do (correspondence);
   prop_ok  : the property's own oracle, evaluated on the OBSERVED behaviour only (it never calls the
              step functions of Model.v, only the vocabulary: req, bits, rcount, ...). *)
From V Require Export lib.Verdict C02.Model C02.Spec.
Open Scope N_scope.

(* ------------------------------------------------------------------ equality tests *)

Definition pairN_eqb (a b : N * N) := (fst a =? fst b) && (snd a =? snd b).
Definition rmap_eqb := list_eqb pairN_eqb.
Definition req_eqb (a b : req) : bool :=
  oN_eqb (cfg a) (cfg b) && oN_eqb (addr a) (addr b) && oN_eqb (wp a) (wp b) &&
  option_eqb rmap_eqb (reason a) (reason b) && oN_eqb (push a) (push b) &&
  (start a =? start b) && Bool.eqb (forced a) (forced b).
Definition oreq_eqb := option_eqb req_eqb.

Definition onat_eqb := option_eqb Nat.eqb.

(* ------------------------------------------------------------------ heap cases: Merge / CopyMerge *)

(* observed state: per cell its deep value and canonical ids of its four maps
   (sets numbered by first occurrence over cells x [cfg; addr; wp], reason maps numbered separately) *)
Definition vcell := (req * list (option N))%type.
Definition view := list vcell.

Fixpoint index_of (x : nat) (l : list nat) (i : N) : option N :=
  match l with
  | [] => None
  | y :: t => if Nat.eqb x y then Some i else index_of x t (i + 1)
  end.

Definition canon1 (seen : list nat) (s : option nat) : list nat * option N :=
  match s with
  | None => (seen, None)
  | Some m => match index_of m seen 0 with
              | Some i => (seen, Some i)
              | None => (seen ++ [m], Some (N.of_nat (List.length seen)))
              end
  end.

Fixpoint view_cells (h : heap) (cs : list cell) (n : nat) (ss rs : list nat) : view :=
  match cs with
  | [] => []
  | c :: t =>
      let '(ss1, i1) := canon1 ss (k_cfg c) in
      let '(ss2, i2) := canon1 ss1 (k_addr c) in
      let '(ss3, i3) := canon1 ss2 (k_wp c) in
      let '(rs1, i4) := canon1 rs (k_reason c) in
      (deref h n, [i1; i2; i3; i4]) :: view_cells h t (S n) ss3 rs1
  end.

Definition view_of (h : heap) : view := view_cells h (cells h) 0 [] [].

Definition vcell_eqb (a b : vcell) : bool :=
  req_eqb (fst a) (fst b) && list_eqb oN_eqb (snd a) (snd b).
Definition view_eqb := list_eqb vcell_eqb.

Definition hobs := (hop * option nat * view)%type.

Fixpoint heap_model_ok (h : heap) (steps : list hobs) : bool :=
  match steps with
  | [] => true
  | (o, res, v) :: t =>
      let '(h', r) := hstep h o in
      onat_eqb r res && view_eqb (view_of h') v && heap_model_ok h' t
  end.

(* --- oracle on observed views *)

Definition vget (v : view) (n : nat) : vcell := nth n v (mkReq None None None None None 0 false, []).

Definition value_spec (n a b : req) : bool :=
  (bits (cfg n) =? N.lor (bits (cfg a)) (bits (cfg b))) &&
  (bits (addr n) =? N.lor (bits (addr a)) (bits (addr b))) &&
  (bits (wp n) =? N.lor (bits (wp a)) (bits (wp b))) &&
  Bool.eqb (forced n) (forced a || forced b) &&
  forallb (fun k => rcount k (rget (reason n)) =? rcount k (rget (reason a)) + rcount k (rget (reason b)))
          (rkeys [n; a; b]) &&
  oN_eqb (push n) (newest (push a) (push b)) &&
  (start n =? start a).

Definition set_ids (c : vcell) : list N :=
  flat_map (fun o => match o with Some i => [i] | None => [] end) (firstn 3 (snd c)).
Definition reason_ids (c : vcell) : list N :=
  flat_map (fun o => match o with Some i => [i] | None => [] end) (skipn 3 (snd c)).
Definition memN (x : N) (l : list N) := existsb (N.eqb x) l.
Definition disjointN (l1 l2 : list N) := forallb (fun x => negb (memN x l2)) l1.

Fixpoint prefix_eqb (pre post : view) : bool :=
  match pre, post with
  | [], _ => true
  | x :: p, y :: q => vcell_eqb x y && prefix_eqb p q
  | _, _ => false
  end.

Definition heap_step_ok (pre : view) (o : hop) (res : option nat) (post : view) : bool :=
  match o with
  | HCopyMerge None b | HMerge None b => onat_eqb res b && view_eqb pre post
  | HCopyMerge (Some a) None | HMerge (Some a) None => onat_eqb res (Some a) && view_eqb pre post
  | HCopyMerge (Some a) (Some b) =>
      (* nothing that existed is touched; the result is a new cell built from fresh maps *)
      onat_eqb res (Some (List.length pre)) && Nat.eqb (List.length post) (S (List.length pre)) && prefix_eqb pre post &&
      let n := vget post (List.length pre) in
      value_spec (fst n) (fst (vget pre a)) (fst (vget pre b)) &&
      disjointN (set_ids n) (flat_map set_ids pre) && disjointN (reason_ids n) (flat_map reason_ids pre)
  | HMerge (Some a) (Some b) =>
      onat_eqb res (Some a) && Nat.eqb (List.length post) (List.length pre) &&
      value_spec (fst (vget post a)) (fst (vget pre a)) (fst (vget pre b)) &&
      (* a request that shares no map with the receiver keeps its value *)
      forallb (fun i =>
                 Nat.eqb i a ||
                 negb (disjointN (set_ids (vget pre i)) (set_ids (vget pre a)) &&
                       disjointN (reason_ids (vget pre i)) (reason_ids (vget pre a))) ||
                 req_eqb (fst (vget pre i)) (fst (vget post i)))
              (seq 0 (List.length pre))
  end.

Fixpoint heap_prop_ok (pre : view) (steps : list hobs) : bool :=
  match steps with
  | [] => true
  | (o, res, post) :: t => heap_step_ok pre o res post && heap_prop_ok post t
  end.

(* ------------------------------------------------------------------ queue cases *)

Inductive qobs :=
| OEnq (c : conn) (r : req)
| ODeq (res : deq_result)
| ODone (c : conn)
| OShut
| OPending (n : N).

Definition deq_eqb (a b : deq_result) : bool :=
  match a, b with
  | DBlock, DBlock => true
  | DShutdown, DShutdown => true
  | DItem c r, DItem c' r' => (c =? c') && oreq_eqb r r'
  | _, _ => false
  end.

Fixpoint queue_model_ok (q : pq) (t : list qobs) : bool :=
  match t with
  | [] => true
  | OEnq c r :: t' => queue_model_ok (enqueue q c r) t'
  | ODeq res :: t' => let '(q', res') := dequeue q in deq_eqb res res' && queue_model_ok q' t'
  | ODone c :: t' => queue_model_ok (mark_done q c) t'
  | OShut :: t' => queue_model_ok (shutdown q) t'
  | OPending n :: t' => (pending_len q =? n) && queue_model_ok q t'
  end.

(* observed-trace oracle.  The harness ends every trace by draining (MarkDone for every connection in
   flight, then Dequeue+MarkDone until the queue is empty), so at the end nothing is parked. *)
Fixpoint accepted_obs (c : conn) (t : list qobs) : list req :=
  match t with
  | [] => []
  | OShut :: _ => []
  | OEnq c' r :: t' => if c =? c' then r :: accepted_obs c t' else accepted_obs c t'
  | _ :: t' => accepted_obs c t'
  end.

Fixpoint delivered_obs (c : conn) (t : list qobs) : list req :=
  match t with
  | [] => []
  | ODeq (DItem c' (Some r)) :: t' => if c =? c' then r :: delivered_obs c t' else delivered_obs c t'
  | _ :: t' => delivered_obs c t'
  end.

(* never handed out twice without a MarkDone in between; never handed out with a nil request *)
Fixpoint one_in_flight_obs (inflight : list conn) (t : list qobs) : bool :=
  match t with
  | [] => true
  | ODeq (DItem c r) :: t' =>
      negb (mem c inflight) && (match r with Some _ => true | None => false end) &&
      one_in_flight_obs (c :: inflight) t'
  | ODone c :: t' => one_in_flight_obs (filter (fun x => negb (x =? c)) inflight) t'
  | _ :: t' => one_in_flight_obs inflight t'
  end.

Definition conns_of (t : list qobs) : list conn :=
  flat_map (fun o => match o with OEnq c _ => [c] | ODeq (DItem c _) => [c] | _ => [] end) t.

Definition queue_prop_ok (t : list qobs) (intact : bool) : bool :=
  intact && one_in_flight_obs [] t &&
  forallb (fun c => covers_exactly (delivered_obs c t) (accepted_obs c t)) (conns_of t).

(* ------------------------------------------------------------------ debounce cases *)

(* Observed: the debounced pushFn calls in order with the number of events each one stands for
   (Reason.Count() of the pushed request: every generated event carries exactly one reason count after
   fix_reason), the EDS-bypass calls by event index, whether two debounced pushes were ever running at
   the same time, and the final value of updateSent. *)
Record dobs := mkDobs {
  o_pushes : list (req * N);
  o_nows : list (N * req);
  o_overlap : bool;
  o_committed : N
}.

Definition is_bypass (o : dopts) (r0 : req) : bool :=
  negb (eds_debounce o) && eds_only o (fix_reason r0).

(* witness schedule: group g_1 arrives while idle and is pushed by the timer; every later group
   arrives while the previous push runs and is pushed when that push completes. *)
Fixpoint take_group (o : dopts) (n : nat) (evs : list req) : list din * list req :=
  match evs with
  | [] => ([], [])
  | r :: t =>
      if is_bypass o r then let '(s, rest) := take_group o n t in (Recv r :: s, rest)
      else match n with
           | O => ([], evs)
           | S n' => let '(s, rest) := take_group o n' t in (Recv r :: s, rest)
           end
  end.

Fixpoint witness (o : dopts) (first : bool) (sizes : list N) (evs : list req) : list din :=
  match sizes with
  | [] => map Recv evs
  | n :: t =>
      let '(s, rest) := take_group o (N.to_nat n) evs in
      (* trailing bypass events of this group's segment are received before the trigger as well *)
      s ++ [if first then Tick true else PushDone true] ++ witness o false t rest
  end.

Fixpoint nows_of (os : list dout) : list req :=
  match os with
  | [] => []
  | PushNow r :: t => r :: nows_of t
  | Push _ _ :: t => nows_of t
  end.

Fixpoint pushes_of (os : list dout) : list (req * N) :=
  match os with
  | [] => []
  | Push r n :: t => (r, n) :: pushes_of t
  | PushNow _ :: t => pushes_of t
  end.

Definition pushobs_eqb (a b : req * N) := req_eqb (fst a) (fst b) && (snd a =? snd b).

Definition debounce_model_ok (o : dopts) (evs : list req) (ob : dobs) : bool :=
  let sched := witness o true (map snd (o_pushes ob)) evs ++ [PushDone true] in
  let '(s, outs) := drun o dst_init sched in
  list_eqb pushobs_eqb (pushes_of outs) (o_pushes ob) &&
  list_eqb req_eqb (nows_of outs) (map snd (o_nows ob)) &&
  (d_committed s =? o_committed ob) &&
  (match d_req s with None => true | Some _ => false end).

(* oracle: the pushes partition the debounced events into consecutive groups and every push carries
   exactly what its group carries; bypassed events are pushed alone and unchanged; nothing overlaps;
   every event is counted as committed. *)
Fixpoint index_from (i : N) (l : list req) : list (N * req) :=
  match l with [] => [] | r :: t => (i, r) :: index_from (i + 1) t end.

Fixpoint groups_ok (ps : list (req * N)) (evs : list req) : bool :=
  match ps with
  | [] => match evs with [] => true | _ => false end
  | (r, n) :: t =>
      negb (n =? 0) && (N.of_nat (List.length (firstn (N.to_nat n) evs)) =? n) &&
      covers_exactly [r] (firstn (N.to_nat n) evs) &&
      groups_ok t (skipn (N.to_nat n) evs)
  end.

Definition idxreq_eqb (a b : N * req) := (fst a =? fst b) && req_eqb (snd a) (snd b).

Definition debounce_prop_ok (o : dopts) (evs : list req) (ob : dobs) : bool :=
  let idx := index_from 0 evs in
  let deb := map (fun p => fix_reason (snd p)) (filter (fun p => negb (is_bypass o (snd p))) idx) in
  let byp := map (fun p => (fst p, fix_reason (snd p))) (filter (fun p => is_bypass o (snd p)) idx) in
  groups_ok (o_pushes ob) deb &&
  list_eqb idxreq_eqb (o_nows ob) byp &&
  negb (o_overlap ob) &&
  (o_committed ob =? N.of_nat (List.length evs)).

(* ------------------------------------------------------------------ sender cases (doSendPushes) *)

(* Observed per scripted step: what the client received at SHand, and at the end the semaphore length
   and the list of connections still holding a parked/handed event. *)
Inductive sobs :=
| SO (i : sin)                                  (* step without observation *)
| SOHand (c : conn) (r : option req).           (* the event read from c's PushCh carried r *)

Fixpoint sender_model_ok (s : sst) (t : list sobs) (final_tokens : N) (exited : bool) : bool :=
  match t with
  | [] =>
      (* where the sender loop stands when stopCh closes (before or after its own `semaphore <-`) is up
         to the scheduler: after a Stop the loop's own token may or may not be left in the semaphore *)
      (if s_stopped s then (final_tokens <=? N.of_nat (s_tokens s)) && (N.of_nat (s_tokens s) <=? final_tokens + 1)
       else N.of_nat (s_tokens s) =? final_tokens) &&
      Bool.eqb (Nat.eqb (s_loop s) 2) exited
  | SO i :: t' => sender_model_ok (sstep s i) t' final_tokens exited
  | SOHand c r :: t' =>
      oreq_eqb (match alookup c (s_parked s) with Some x => x | None => None end) r &&
      (match alookup c (s_parked s) with Some _ => true | None => false end) &&
      sender_model_ok (sstep s (SHand c)) t' final_tokens exited
  end.

(* oracle on the observed trace: per connection, what was handed to it covers exactly what was
   enqueued for it while it was connected and the queue open (the harness script closes a client only
   at the end of its life and drains every surviving client before the final observation); the
   semaphore ends with at most the sender loop's own token. *)
Fixpoint s_accepted (c : conn) (t : list sobs) : list req :=
  match t with
  | [] => []
  | SO SShutQueue :: _ => []
  | SO (SClose c') :: t' => if c =? c' then [] else s_accepted c t'
  | SO (SClientFail c') :: t' => if c =? c' then [] else s_accepted c t'
  | SO (SEnq c' r) :: t' => if c =? c' then r :: s_accepted c t' else s_accepted c t'
  | _ :: t' => s_accepted c t'
  end.

Fixpoint s_handed_obs (c : conn) (t : list sobs) : list req :=
  match t with
  | [] => []
  | SOHand c' (Some r) :: t' => if c =? c' then r :: s_handed_obs c t' else s_handed_obs c t'
  | _ :: t' => s_handed_obs c t'
  end.

Definition s_conns (t : list sobs) : list conn :=
  flat_map (fun o => match o with SO (SEnq c _) => [c] | _ => [] end) t.

Definition s_closed_obs (t : list sobs) : list conn :=
  flat_map (fun o => match o with SO (SClose c) => [c] | SO (SClientFail c) => [c] | _ => [] end) t.

Definition s_dropped_obs (t : list sobs) : list conn :=
  flat_map (fun o => match o with SO (SDrop c) => [c] | _ => [] end) t.

Definition sender_prop_ok (t : list sobs) (final_tokens : N) : bool :=
  (final_tokens <=? 1) &&
  forallb (fun c => mem c (s_closed_obs t) || mem c (s_dropped_obs t) || covers_exactly (s_handed_obs c t) (s_accepted c t)) (s_conns t).

(* ------------------------------------------------------------------ cases *)

Inductive case :=
| CHeap (id : N) (h0 : heap) (v0 : view) (steps : list hobs)
| CQueue (id : N) (t : list qobs) (intact : bool)
| CDebounce (id : N) (o : dopts) (evs : list req) (ob : dobs)
| CSender (id : N) (cap : nat) (t : list sobs) (final_tokens : N) (exited : bool).

Definition case_id (c : case) : N :=
  match c with
  | CHeap id _ _ _ => id | CQueue id _ _ => id | CDebounce id _ _ _ => id | CSender id _ _ _ _ => id
  end.

Definition model_ok (c : case) : bool :=
  match c with
  | CHeap _ h0 v0 steps => view_eqb (view_of h0) v0 && heap_model_ok h0 steps
  | CQueue _ t _ => queue_model_ok pq_empty t
  | CDebounce _ o evs ob => debounce_model_ok o evs ob
  | CSender _ cap t ft ex => sender_model_ok (sst_init cap) t ft ex
  end.

Definition prop_ok (c : case) : bool :=
  match c with
  | CHeap _ _ v0 steps => heap_prop_ok v0 steps
  | CQueue _ t intact => queue_prop_ok t intact
  | CDebounce _ o evs ob => debounce_prop_ok o evs ob
  | CSender _ _ t ft _ => sender_prop_ok t ft
  end.

Definition mismatches := check_all case_id model_ok prop_ok.
