(* C02 proofs, part 1: merge algebra (values), reason maps, association lists, queue invariant. *)
From Coq Require Import List NArith Bool Lia.
From V Require Import C02.Model C02.Spec.
Import ListNotations.
Open Scope N_scope.

(* ------------------------------------------------------------------ reason maps *)

Lemma rcount_radd1 k k' v m : rcount k (radd1 k' v m) = rcount k m + (if k =? k' then v else 0).
Proof.
  induction m as [|[k0 v0] m IH]; cbn [radd1 rcount].
  - lia.
  - destruct (N.eqb_spec k' k0) as [->|Hne].
    + cbn [rcount]. destruct (k =? k0); lia.
    + destruct (k' <? k0).
      * cbn [rcount]. destruct (k =? k'), (k =? k0); lia.
      * cbn [rcount]. rewrite IH. destruct (k =? k'), (k =? k0); lia.
Qed.

Lemma rcount_rmerge k o : forall m, rcount k (rmerge m o) = rcount k m + rcount k o.
Proof.
  unfold rmerge. induction o as [|[k0 v0] o IH]; intros m; cbn [fold_left rcount fst snd].
  - lia.
  - rewrite IH, rcount_radd1. lia.
Qed.

Lemma rlen0_rcount r k : rlen0 r = true -> rcount k (rget r) = 0.
Proof. unfold rlen0. destruct (rget r); [reflexivity|discriminate]. Qed.

Lemma rcount_reason_merge k a b :
  rcount k (rget (reason_merge a b)) = rcount k (rget a) + rcount k (rget b).
Proof.
  unfold reason_merge. destruct (rlen0 b) eqn:E.
  - rewrite (rlen0_rcount b k E). lia.
  - cbn [rget]. apply rcount_rmerge.
Qed.

Lemma rcount_reason_cm k a b :
  rcount k (rget (reason_cm a b)) = rcount k (rget a) + rcount k (rget b).
Proof.
  unfold reason_cm. destruct (rlen0 a) eqn:Ea, (rlen0 b) eqn:Eb; cbn [andb rget];
    try (rewrite !rcount_rmerge; cbn [rcount]; lia).
  rewrite (rlen0_rcount a k Ea), (rlen0_rcount b k Eb). reflexivity.
Qed.

(* ------------------------------------------------------------------ sets *)

Lemma bits_set_merge a b : bits (set_merge a b) = N.lor (bits a) (bits b).
Proof. destruct a; cbn [set_merge bits]; [reflexivity|]. symmetry. apply N.lor_0_l. Qed.

Lemma bits_cfg_cm a b : bits (cfg_cm a b) = N.lor (bits a) (bits b).
Proof. destruct a, b; reflexivity. Qed.

Lemma bits_len_cm a b : bits (len_cm a b) = N.lor (bits a) (bits b).
Proof.
  unfold len_cm, len0. destruct (N.eqb_spec (bits a) 0) as [Ha|Ha]; cbn [andb]; [|reflexivity].
  destruct (N.eqb_spec (bits b) 0) as [Hb|Hb]; [|reflexivity].
  rewrite Ha, Hb. reflexivity.
Qed.

(* the set is nil exactly when the code leaves it nil *)
Lemma cfg_cm_nil a b : cfg_cm a b = None <-> a = None /\ b = None.
Proof. destruct a, b; cbn; split; intros H; try discriminate; auto; destruct H; discriminate. Qed.

(* ------------------------------------------------------------------ merge algebra on values *)

Definition algebra (m a b : req) (p : option N) : Prop :=
  bits (cfg m) = N.lor (bits (cfg a)) (bits (cfg b)) /\
  bits (addr m) = N.lor (bits (addr a)) (bits (addr b)) /\
  bits (wp m) = N.lor (bits (wp a)) (bits (wp b)) /\
  forced m = (forced a || forced b)%bool /\
  (forall k, rcount k (rget (reason m)) = rcount k (rget (reason a)) + rcount k (rget (reason b))) /\
  start m = start a /\
  push m = p.

Lemma merge_algebra a b : algebra (merge_v a b) a b (newest (push a) (push b)).
Proof.
  unfold algebra, merge_v; cbn [cfg addr wp forced reason start push].
  rewrite !bits_set_merge. repeat split; auto using rcount_reason_merge.
Qed.

Lemma copy_merge_algebra a b : algebra (copy_merge_v a b) a b (newest (push a) (push b)).
Proof.
  unfold algebra, copy_merge_v; cbn [cfg addr wp forced reason start push].
  rewrite bits_cfg_cm, !bits_len_cm. repeat split; auto using rcount_reason_cm.
Qed.

(* ------------------------------------------------------------------ association lists *)

Section AssocLemmas.
  Context {V : Type}.
  Implicit Types (l : list (conn * V)).

  Lemma alookup_aremove_same c l : alookup c (aremove c l) = None.
  Proof.
    unfold aremove. induction l as [|[c' v] l IH]; cbn; [reflexivity|].
    destruct (N.eqb_spec c c'); cbn; [exact IH|].
    destruct (N.eqb_spec c c'); [contradiction|exact IH].
  Qed.

  Lemma alookup_aremove_other c c' l : c <> c' -> alookup c' (aremove c l) = alookup c' l.
  Proof.
    intros Hne. unfold aremove. induction l as [|[c0 v] l IH]; cbn; [reflexivity|].
    destruct (N.eqb_spec c c0) as [->|H0]; cbn.
    - destruct (N.eqb_spec c' c0); [congruence|exact IH].
    - destruct (N.eqb_spec c' c0); [reflexivity|exact IH].
  Qed.

  Lemma alookup_aset_same c v l : alookup c (aset c v l) = Some v.
  Proof. unfold aset; cbn. now rewrite N.eqb_refl. Qed.

  Lemma alookup_aset_other c c' v l : c <> c' -> alookup c' (aset c v l) = alookup c' l.
  Proof.
    intros Hne. unfold aset; cbn. destruct (N.eqb_spec c' c); [congruence|].
    now apply alookup_aremove_other.
  Qed.
End AssocLemmas.

(* ------------------------------------------------------------------ queue invariant *)

Definition qinv (q : pq) : Prop :=
  NoDup (queue q) /\
  (forall c, In c (queue q) <-> alookup c (pending q) <> None) /\
  (forall c, alookup c (processing q) <> None -> alookup c (pending q) = None).

Lemma qinv_empty : qinv pq_empty.
Proof.
  repeat split; cbn; try constructor; try tauto; try congruence.
Qed.

Lemma nodup_snoc (l : list conn) c : NoDup l -> ~ In c l -> NoDup (l ++ [c]).
Proof.
  induction l as [|x l IH]; cbn; intros Hnd Hni.
  - constructor; [tauto|constructor].
  - inversion Hnd; subst. constructor.
    + rewrite in_app_iff; cbn. intros [H|[H|[]]]; [contradiction|subst; tauto].
    + apply IH; tauto.
Qed.

Lemma snoc_iff (l : list conn) c c' : In c' (l ++ [c]) <-> In c' l \/ c = c'.
Proof. rewrite in_app_iff; cbn. tauto. Qed.

Lemma qinv_enqueue q c r : qinv q -> qinv (enqueue q c r).
Proof.
  intros (Hnd & Hq & Hp). unfold enqueue.
  destruct (down q); [split; [|split]; assumption|].
  destruct (alookup c (processing q)) as [cur|] eqn:Epr.
  - split; [|split]; cbn [queue pending processing]; [assumption|assumption|].
    intros c' H. destruct (N.eq_dec c c') as [->|Hne].
    + apply Hp. congruence.
    + rewrite alookup_aset_other in H by exact Hne. now apply Hp.
  - destruct (alookup c (pending q)) as [cur|] eqn:Epe.
    + split; [|split]; cbn [queue pending processing]; [assumption| |].
      * intros c'. destruct (N.eq_dec c c') as [->|Hne].
        -- rewrite alookup_aset_same. split; [discriminate|]. intros _. apply Hq. congruence.
        -- rewrite alookup_aset_other by exact Hne. apply Hq.
      * intros c' H. destruct (N.eq_dec c c') as [->|Hne].
        -- apply Hp in H. congruence.
        -- rewrite alookup_aset_other by exact Hne. now apply Hp.
    + assert (Hni : ~ In c (queue q)) by (intros H; apply Hq in H; congruence).
      split; [|split]; cbn [queue pending processing].
      * now apply nodup_snoc.
      * intros c'. rewrite snoc_iff. destruct (N.eq_dec c c') as [->|Hne].
        -- rewrite alookup_aset_same. split; [discriminate|auto].
        -- rewrite alookup_aset_other by exact Hne. rewrite <- Hq. tauto.
      * intros c' H. destruct (N.eq_dec c c') as [->|Hne]; [congruence|].
        rewrite alookup_aset_other by exact Hne. now apply Hp.
Qed.

Lemma qinv_dequeue q : qinv q -> qinv (fst (dequeue q)).
Proof.
  intros (Hnd & Hq & Hp). unfold dequeue. destruct (queue q) as [|c rest] eqn:Eq; cbn [fst].
  - unfold qinv. rewrite Eq. auto.
  - inversion Hnd as [|? ? Hni Hnd']; subst.
    split; [|split]; cbn [queue pending processing]; [assumption| |].
    + intros c'. destruct (N.eq_dec c c') as [->|Hne].
      * rewrite alookup_aremove_same. tauto.
      * rewrite alookup_aremove_other by exact Hne. rewrite <- Hq. cbn. split; [auto|]. intros [H|H]; [congruence|exact H].
    + intros c' H. destruct (N.eq_dec c c') as [->|Hne].
      * apply alookup_aremove_same.
      * rewrite alookup_aset_other in H by exact Hne. rewrite alookup_aremove_other by exact Hne. now apply Hp.
Qed.

Lemma qinv_mark_done q c : qinv q -> qinv (mark_done q c).
Proof.
  intros (Hnd & Hq & Hp). unfold mark_done.
  assert (Hrest : forall c', alookup c' (aremove c (processing q)) <> None -> alookup c' (pending q) = None).
  { intros c' H. destruct (N.eq_dec c c') as [->|Hne].
    - now rewrite alookup_aremove_same in H.
    - rewrite alookup_aremove_other in H by exact Hne. now apply Hp. }
  destruct (alookup c (processing q)) as [[r|]|] eqn:Epr.
  - assert (Hpe : alookup c (pending q) = None) by (apply Hp; congruence).
    assert (Hni : ~ In c (queue q)) by (intros H; apply Hq in H; congruence).
    split; [|split]; cbn [queue pending processing].
    + now apply nodup_snoc.
    + intros c'. rewrite snoc_iff. destruct (N.eq_dec c c') as [->|Hne].
      * rewrite alookup_aset_same. split; [discriminate|auto].
      * rewrite alookup_aset_other by exact Hne. rewrite <- Hq. tauto.
    + intros c' H. destruct (N.eq_dec c c') as [->|Hne].
      * now rewrite alookup_aremove_same in H.
      * rewrite alookup_aset_other by exact Hne. now apply Hrest.
  - split; [|split]; cbn [queue pending processing]; assumption.
  - split; [|split]; cbn [queue pending processing]; assumption.
Qed.

Lemma qinv_qstep q o : qinv q -> qinv (fst (qstep q o)).
Proof.
  destruct o; cbn [qstep fst]; intros H.
  - now apply qinv_enqueue.
  - now apply qinv_dequeue.
  - now apply qinv_mark_done.
  - destruct H as (H1 & H2 & H3). split; [|split]; cbn [shutdown queue pending processing]; assumption.
Qed.

Lemma qlog_step_st l o : q_st (qlog_step l o) = fst (qstep (q_st l) o).
Proof. unfold qlog_step. destruct (qstep (q_st l) o). reflexivity. Qed.

Lemma fold_left_inv {A B} (f : A -> B -> A) (P : A -> Prop) :
  (forall a b, P a -> P (f a b)) -> forall l a, P a -> P (fold_left f l a).
Proof. intros H l. induction l; cbn; auto. Qed.

Lemma qinv_qrun ops : qinv (q_st (qrun ops)).
Proof.
  unfold qrun. apply (fold_left_inv qlog_step (fun l => qinv (q_st l))).
  - intros l o H. rewrite qlog_step_st. now apply qinv_qstep.
  - exact qinv_empty.
Qed.

(* one push in flight per connection: what Dequeue returns is not in [processing], and it carries a request *)
Lemma dequeue_not_in_flight q q' c r :
  qinv q -> dequeue q = (q', DItem c r) -> alookup c (processing q) = None /\ r <> None.
Proof.
  intros (Hnd & Hq & Hp). unfold dequeue. destruct (queue q) as [|c0 rest] eqn:Eq.
  - destruct (down q); discriminate.
  - intros H. injection H as <- <- <-.
    assert (Hpe : alookup c0 (pending q) <> None) by (apply Hq; now left).
    split; [|exact Hpe].
    destruct (alookup c0 (processing q)) eqn:E; [|reflexivity].
    exfalso. apply Hpe, Hp. congruence.
Qed.

(* an Enqueue that arrives while c is in flight is re-queued by MarkDone, merged *)
Lemma enqueue_during_processing q c cur r :
  down q = false -> alookup c (processing q) = Some cur ->
  let q' := mark_done (enqueue q c r) c in
  alookup c (pending q') = copy_merge_o cur (Some r) /\ In c (queue q') /\ alookup c (processing q') = None.
Proof.
  intros Hd Hpr. unfold enqueue. rewrite Hd, Hpr. unfold mark_done; cbn [processing].
  rewrite alookup_aset_same.
  destruct cur as [x|]; cbn [copy_merge_o pending queue processing];
    rewrite alookup_aset_same, alookup_aremove_same, in_app_iff; cbn; auto.
Qed.

(* FIFO service: the connection at position n of the queue is returned by the (n+1)-th Dequeue *)
Fixpoint deq_n (n : nat) (q : pq) : pq := match n with O => q | S n' => deq_n n' (fst (dequeue q)) end.

Lemma dequeue_serves_position : forall n q c,
  qinv q -> nth_error (queue q) n = Some c ->
  exists r, snd (dequeue (deq_n n q)) = DItem c (Some r) /\ alookup c (pending q) = Some r.
Proof.
  induction n as [|n IH]; intros q c Hinv Hn.
  - cbn [deq_n]. unfold dequeue. destruct (queue q) as [|c0 rest] eqn:Eq; [discriminate|].
    cbn in Hn. injection Hn as ->. cbn [snd].
    destruct Hinv as (_ & Hq & _).
    destruct (alookup c (pending q)) as [r|] eqn:E.
    + now exists r.
    + exfalso. assert (In c (queue q)) by (rewrite Eq; now left). apply Hq in H. congruence.
  - cbn [deq_n]. pose proof (qinv_dequeue q Hinv) as Hinv'.
    unfold dequeue in *. destruct (queue q) as [|c0 rest] eqn:Eq; [discriminate|].
    cbn [fst] in *. cbn in Hn.
    destruct (IH _ c Hinv') as (r & H1 & H2); [exact Hn|].
    exists r. split; [exact H1|].
    cbn [pending] in H2.
    destruct (N.eq_dec c0 c) as [->|Hne].
    + now rewrite alookup_aremove_same in H2.
    + now rewrite alookup_aremove_other in H2 by exact Hne.
Qed.

(* isolation inside the queue: an operation on c leaves what is stored for any other connection untouched *)
Lemma enqueue_isolation q c r c' :
  c <> c' ->
  alookup c' (pending (enqueue q c r)) = alookup c' (pending q) /\
  alookup c' (processing (enqueue q c r)) = alookup c' (processing q).
Proof.
  intros Hne. unfold enqueue. destruct (down q); [auto|].
  destruct (alookup c (processing q)); cbn [pending processing].
  - now rewrite alookup_aset_other.
  - destruct (alookup c (pending q)); cbn [pending processing]; now rewrite alookup_aset_other.
Qed.

Lemma mark_done_isolation q c c' :
  c <> c' ->
  alookup c' (pending (mark_done q c)) = alookup c' (pending q) /\
  alookup c' (processing (mark_done q c)) = alookup c' (processing q).
Proof.
  intros Hne. unfold mark_done. destruct (alookup c (processing q)) as [[r|]|]; cbn [pending processing];
    rewrite ?alookup_aset_other, ?alookup_aremove_other by exact Hne; auto.
Qed.
