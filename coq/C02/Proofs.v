(* C02 proofs. *)
From Coq Require Import List NArith Bool Lia.
From V Require Import C02.Model.
Import ListNotations.
Open Scope N_scope.

Lemma merge_forced a b : forced (merge_v a b) = forced a || forced b.
Proof. reflexivity. Qed.
