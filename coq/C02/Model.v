(* C02 — executable model of the push pipeline between ConfigUpdate and each proxy's push.

   Anchors (/repo):
     pilot/pkg/model/push_context.go   PushRequest.Merge, PushRequest.CopyMerge, ReasonStats.Merge
     pilot/pkg/xds/pushqueue.go        PushQueue.Enqueue / Dequeue / MarkDone / ShutDown / Pending
     pilot/pkg/xds/discovery.go        debounce (loop body, pushWorker), doSendPushes (+ doneFunc)

   Conventions.  Config keys / addresses / waypoint references are interned by the harness to small
   numbers and a Go set is the bitmask of its members (every finite set of naturals is an [N], so
   nothing is bounded); [None] is the Go nil map.  A ReasonStats map is an association list sorted by
   reason id.  PushContext snapshots and times are numbers.  Definitions only, no proofs. *)
From Coq Require Import List NArith Bool.
Import ListNotations.
Open Scope N_scope.

(* ------------------------------------------------------------------ values *)

Definition oset := option N.
Definition rmap := list (N * N).

Definition bits (s : oset) : N := match s with None => 0 | Some b => b end.
(* len(s) == 0 *)
Definition len0 (s : oset) : bool := bits s =? 0.

Definition rget (r : option rmap) : rmap := match r with None => [] | Some m => m end.
(* len(r) == 0 *)
Definition rlen0 (r : option rmap) : bool := match rget r with [] => true | _ => false end.

(* r[k] += v  on a map kept sorted by key *)
Fixpoint radd1 (k v : N) (m : rmap) : rmap :=
  match m with
  | [] => [(k, v)]
  | (k', v') :: m' =>
      if k =? k' then (k', v' + v) :: m'
      else if k <? k' then (k, v) :: m
      else (k', v') :: radd1 k v m'
  end.

(* ReasonStats.Merge: for reason, count := range other { r[reason] += count } *)
Definition rmerge (m o : rmap) : rmap :=
  fold_left (fun acc kv => radd1 (fst kv) (snd kv) acc) o m.

Fixpoint rcount (k : N) (m : rmap) : N :=
  match m with
  | [] => 0
  | (k', v) :: m' => (if k =? k' then v else 0) + rcount k m'
  end.

Record req := mkReq {
  cfg : oset;               (* ConfigsUpdated *)
  addr : oset;              (* AddressesUpdated *)
  wp : oset;                (* WaypointsUpdated *)
  reason : option rmap;     (* Reason *)
  push : option N;          (* Push (snapshot id; None = nil) *)
  start : N;                (* Start *)
  forced : bool             (* Forced *)
}.

(* --- PushRequest.Merge, value of the returned (= receiver) request ------------------------------ *)

(* if pr.X == nil { pr.X = other.X } else { pr.X.Merge(other.X) } *)
Definition set_merge (a b : oset) : oset :=
  match a with None => b | Some x => Some (N.lor x (bits b)) end.

(* if len(other.Reason) > 0 { if pr.Reason == nil { pr.Reason = make() }; pr.Reason.Merge(other.Reason) } *)
Definition reason_merge (a b : option rmap) : option rmap :=
  if rlen0 b then a else Some (rmerge (rget a) (rget b)).

Definition merge_v (a b : req) : req :=
  {| cfg := set_merge (cfg a) (cfg b);
     addr := set_merge (addr a) (addr b);
     wp := set_merge (wp a) (wp b);
     reason := reason_merge (reason a) (reason b);
     push := match push b with Some p => Some p | None => push a end;
     start := start a;
     forced := forced a || forced b |}.

(* nil receiver / nil argument *)
Definition merge_o (a b : option req) : option req :=
  match a, b with
  | None, _ => b
  | _, None => a
  | Some x, Some y => Some (merge_v x y)
  end.

(* --- PushRequest.CopyMerge, value of the freshly allocated result -------------------------------- *)

(* ConfigsUpdated: nil only if both are nil *)
Definition cfg_cm (a b : oset) : oset :=
  match a, b with
  | None, None => None
  | _, _ => Some (N.lor (bits a) (bits b))
  end.

(* AddressesUpdated / WaypointsUpdated: allocated only if one side is non-empty *)
Definition len_cm (a b : oset) : oset :=
  if len0 a && len0 b then None else Some (N.lor (bits a) (bits b)).

(* if len(pr.Reason)+len(other.Reason) > 0 { reason = make(); reason.Merge(pr.Reason); reason.Merge(other.Reason) } *)
Definition reason_cm (a b : option rmap) : option rmap :=
  if rlen0 a && rlen0 b then None else Some (rmerge (rmerge [] (rget a)) (rget b)).

Definition copy_merge_v (a b : req) : req :=
  {| cfg := cfg_cm (cfg a) (cfg b);
     addr := len_cm (addr a) (addr b);
     wp := len_cm (wp a) (wp b);
     reason := reason_cm (reason a) (reason b);
     push := match push b with Some p => Some p | None => push a end;   (* newerPushContext(pr.Push, other.Push) *)
     start := start a;
     forced := forced a || forced b |}.

Definition copy_merge_o (a b : option req) : option req :=
  match a, b with
  | None, _ => b
  | _, None => a
  | Some x, Some y => Some (copy_merge_v x y)
  end.

(* ------------------------------------------------------------------ heap level (sharing, mutation) *)
(* A *PushRequest is an index into [cells]; a Go map is an index into [hsets] / [hrmaps]. *)

Record cell := mkCell {
  k_cfg : option nat; k_addr : option nat; k_wp : option nat;
  k_reason : option nat;
  k_push : option N; k_start : N; k_forced : bool
}.

Record heap := mkHeap { cells : list cell; hsets : list N; hrmaps : list rmap }.

Definition dcell := mkCell None None None None None 0 false.

Fixpoint upd {A} (n : nat) (x : A) (l : list A) : list A :=
  match l, n with
  | [], _ => []
  | _ :: t, O => x :: t
  | y :: t, S n' => y :: upd n' x t
  end.

Definition hcell (h : heap) (r : nat) : cell := nth r (cells h) dcell.
Definition hset (h : heap) (m : nat) : N := nth m (hsets h) 0.
Definition hrmap (h : heap) (m : nat) : rmap := nth m (hrmaps h) [].

Definition hbits (h : heap) (s : option nat) : N := match s with None => 0 | Some m => hset h m end.
Definition hoset (h : heap) (s : option nat) : oset := option_map (hset h) s.
Definition hrm (h : heap) (s : option nat) : option rmap := option_map (hrmap h) s.

(* deep value of a cell *)
Definition deref (h : heap) (r : nat) : req :=
  let c := hcell h r in
  {| cfg := hoset h (k_cfg c); addr := hoset h (k_addr c); wp := hoset h (k_wp c);
     reason := hrm h (k_reason c); push := k_push c; start := k_start c; forced := k_forced c |}.

Definition set_hset (h : heap) (m : nat) (v : N) : heap :=
  mkHeap (cells h) (upd m v (hsets h)) (hrmaps h).
Definition set_hrmap (h : heap) (m : nat) (v : rmap) : heap :=
  mkHeap (cells h) (hsets h) (upd m v (hrmaps h)).
Definition set_cell (h : heap) (r : nat) (c : cell) : heap :=
  mkHeap (upd r c (cells h)) (hsets h) (hrmaps h).
Definition alloc_set (h : heap) (v : N) : heap * nat :=
  (mkHeap (cells h) (hsets h ++ [v]) (hrmaps h), length (hsets h)).
Definition alloc_rmap (h : heap) (v : rmap) : heap * nat :=
  (mkHeap (cells h) (hsets h) (hrmaps h ++ [v]), length (hrmaps h)).
Definition alloc_cell (h : heap) (c : cell) : heap * nat :=
  (mkHeap (cells h ++ [c]) (hsets h) (hrmaps h), length (cells h)).

(* one set field of Merge: alias when the receiver's map is nil, else mutate the receiver's map in place *)
Definition merge_set_h (h : heap) (fa fb : option nat) : heap * option nat :=
  match fa with
  | None => (h, fb)
  | Some ma => (set_hset h ma (N.lor (hset h ma) (hbits h fb)), Some ma)
  end.

Definition merge_reason_h (h : heap) (fa fb : option nat) : heap * option nat :=
  if rlen0 (hrm h fb) then (h, fa)
  else
    let '(h1, ma) := match fa with
                     | None => alloc_rmap h []
                     | Some m => (h, m)
                     end in
    (set_hrmap h1 ma (rmerge (hrmap h1 ma) (rget (hrm h1 fb))), Some ma).

(* PushRequest.Merge on two non-nil pointers: the receiver's cell is overwritten *)
Definition merge_h (h : heap) (ra rb : nat) : heap :=
  let ca := hcell h ra in
  let cb := hcell h rb in
  let '(h1, fr) := merge_reason_h h (k_reason ca) (k_reason cb) in
  let fo := k_forced ca || k_forced cb in
  let pu := match k_push cb with Some p => Some p | None => k_push ca end in
  let '(h2, fc) := merge_set_h h1 (k_cfg ca) (k_cfg cb) in
  let '(h3, fad) := merge_set_h h2 (k_addr ca) (k_addr cb) in
  let '(h4, fw) := merge_set_h h3 (k_wp ca) (k_wp cb) in
  set_cell h4 ra (mkCell fc fad fw fr pu (k_start ca) fo).

Definition merge_ho (h : heap) (a b : option nat) : heap * option nat :=
  match a, b with
  | None, _ => (h, b)
  | _, None => (h, a)
  | Some ra, Some rb => (merge_h h ra rb, Some ra)
  end.

Definition alloc_oset (h : heap) (v : oset) : heap * option nat :=
  match v with
  | None => (h, None)
  | Some x => let '(h', m) := alloc_set h x in (h', Some m)
  end.

(* PushRequest.CopyMerge on two non-nil pointers: only allocation *)
Definition copy_merge_h (h : heap) (ra rb : nat) : heap * nat :=
  let a := deref h ra in
  let b := deref h rb in
  let v := copy_merge_v a b in
  let '(h1, fr) := match reason v with
                   | None => (h, None)
                   | Some m => let '(h', r) := alloc_rmap h m in (h', Some r)
                   end in
  let '(h2, fc) := alloc_oset h1 (cfg v) in
  let '(h3, fad) := alloc_oset h2 (addr v) in
  let '(h4, fw) := alloc_oset h3 (wp v) in
  alloc_cell h4 (mkCell fc fad fw fr (push v) (start v) (forced v)).

Definition copy_merge_ho (h : heap) (a b : option nat) : heap * option nat :=
  match a, b with
  | None, _ => (h, b)
  | _, None => (h, a)
  | Some ra, Some rb => let '(h', r) := copy_merge_h h ra rb in (h', Some r)
  end.

Inductive hop := HMerge (a b : option nat) | HCopyMerge (a b : option nat).

Definition hstep (h : heap) (o : hop) : heap * option nat :=
  match o with
  | HMerge a b => merge_ho h a b
  | HCopyMerge a b => copy_merge_ho h a b
  end.

(* ------------------------------------------------------------------ PushQueue *)

Definition conn := N.

Section Assoc.
  Context {V : Type}.
  Fixpoint alookup (c : conn) (l : list (conn * V)) : option V :=
    match l with
    | [] => None
    | (c', v) :: t => if c =? c' then Some v else alookup c t
    end.
  Definition aremove (c : conn) (l : list (conn * V)) : list (conn * V) :=
    filter (fun p => negb (c =? fst p)) l.
  Definition aset (c : conn) (v : V) (l : list (conn * V)) : list (conn * V) :=
    (c, v) :: aremove c l.
End Assoc.

Record pq := mkPq {
  pending : list (conn * req);               (* map[*Connection]*PushRequest *)
  queue : list conn;                         (* FIFO *)
  processing : list (conn * option req);     (* value nil until an Enqueue arrives while in flight *)
  down : bool                                (* shuttingDown *)
}.

Definition pq_empty := mkPq [] [] [] false.

Definition enqueue (q : pq) (c : conn) (r : req) : pq :=
  if down q then q
  else match alookup c (processing q) with
       | Some cur =>
           mkPq (pending q) (queue q) (aset c (copy_merge_o cur (Some r)) (processing q)) (down q)
       | None =>
           match alookup c (pending q) with
           | Some cur => mkPq (aset c (copy_merge_v cur r) (pending q)) (queue q) (processing q) (down q)
           | None => mkPq (aset c r (pending q)) (queue q ++ [c]) (processing q) (down q)
           end
       end.

Inductive deq_result :=
| DBlock                                  (* would block in cond.Wait *)
| DShutdown                               (* (nil, nil, true) *)
| DItem (c : conn) (r : option req).      (* (con, request, false) *)

Definition dequeue (q : pq) : pq * deq_result :=
  match queue q with
  | [] => (q, if down q then DShutdown else DBlock)
  | c :: rest =>
      (mkPq (aremove c (pending q)) rest (aset c None (processing q)) (down q),
       DItem c (alookup c (pending q)))
  end.

Definition mark_done (q : pq) (c : conn) : pq :=
  match alookup c (processing q) with
  | Some (Some r) => mkPq (aset c r (pending q)) (queue q ++ [c]) (aremove c (processing q)) (down q)
  | _ => mkPq (pending q) (queue q) (aremove c (processing q)) (down q)
  end.

Definition shutdown (q : pq) : pq := mkPq (pending q) (queue q) (processing q) true.

Definition pending_len (q : pq) : N := N.of_nat (length (queue q)).

Inductive qop := Enq (c : conn) (r : req) | Deq | Done (c : conn) | Shut.

Definition qstep (q : pq) (o : qop) : pq * deq_result :=
  match o with
  | Enq c r => (enqueue q c r, DBlock)
  | Deq => dequeue q
  | Done c => (mark_done q c, DBlock)
  | Shut => (shutdown q, DBlock)
  end.

(* instrumented run: what was accepted for / delivered to each connection, chronologically *)
Record qlog := mkQlog { q_st : pq; q_acc : list (conn * req); q_del : list (conn * req) }.

Definition qlog_step (l : qlog) (o : qop) : qlog :=
  let '(q', res) := qstep (q_st l) o in
  mkQlog q'
    (match o with
     | Enq c r => if down (q_st l) then q_acc l else q_acc l ++ [(c, r)]
     | _ => q_acc l
     end)
    (match res with
     | DItem c (Some r) => q_del l ++ [(c, r)]
     | _ => q_del l
     end).

Definition qrun (ops : list qop) : qlog := fold_left qlog_step ops (mkQlog pq_empty [] []).

Definition of_conn (c : conn) (l : list (conn * req)) : list req :=
  map snd (filter (fun p => c =? fst p) l).

(* the request currently parked for c: in [processing] (to be re-queued by MarkDone) or in [pending] *)
Definition parked (q : pq) (c : conn) : list req :=
  match alookup c (processing q) with
  | Some (Some r) => [r]
  | _ => match alookup c (pending q) with Some r => [r] | None => [] end
  end.

(* ------------------------------------------------------------------ debounce *)

Definition unknown_reason : N := 0.     (* model.UnknownTrigger, interned to 0 by the harness *)

Record dopts := mkDopts {
  eds_debounce : bool;    (* opts.enableEDSDebounce *)
  eds_mask : N            (* which interned config keys have kind.Endpoints *)
}.

(* model.OnlyHasConfigsOfKind(r.ConfigsUpdated, kind.Endpoints) *)
Definition eds_only (o : dopts) (r : req) : bool :=
  negb (len0 (cfg r)) && (N.ldiff (bits (cfg r)) (eds_mask o) =? 0).

(* if len(r.Reason) == 0 { r.Reason = NewReasonStats(UnknownTrigger) } *)
Definition fix_reason (r : req) : req :=
  if rlen0 (reason r)
  then mkReq (cfg r) (addr r) (wp r) (Some [(unknown_reason, 1)]) (push r) (start r) (forced r)
  else r.

Record dst := mkDst {
  d_req : option req;      (* req *)
  d_events : N;            (* debouncedEvents *)
  d_free : bool;           (* free *)
  d_timer : bool;          (* an unfired time.After is held in timeChan *)
  d_inflight : option N;   (* ghost: debouncedEvents of the push goroutine that is running *)
  d_committed : N          (* updateSent *)
}.

Definition dst_init := mkDst None 0 true false None 0.

Inductive din :=
| Recv (r : req)            (* r := <-ch *)
| Tick (ripe : bool)        (* <-timeChan; ripe = (eventDelay >= debounceMax || quietTime >= DebounceAfter) *)
| PushDone (ripe : bool).   (* pushFn returned: updateSent.Add, freeCh <- ; then case <-freeCh *)

Inductive dout :=
| Push (r : req) (n : N)    (* go push(req, debouncedEvents, ..) *)
| PushNow (r : req).        (* EDS bypass: go pushFn(r); updateSent.Inc() *)

(* pushWorker *)
Definition push_worker (ripe : bool) (s : dst) : dst * list dout :=
  if ripe then
    match d_req s with
    | Some r => (mkDst None 0 false (d_timer s) (Some (d_events s)) (d_committed s), [Push r (d_events s)])
    | None => (s, [])
    end
  else (mkDst (d_req s) (d_events s) (d_free s) true (d_inflight s) (d_committed s), []).

Definition dstep (o : dopts) (s : dst) (i : din) : dst * list dout :=
  match i with
  | PushDone ripe =>
      match d_inflight s with
      | None => (s, [])         (* no push goroutine is running: freeCh cannot be ready *)
      | Some n =>
          push_worker ripe (mkDst (d_req s) (d_events s) true (d_timer s) None (d_committed s + n))
      end
  | Recv r0 =>
      let r := fix_reason r0 in
      if negb (eds_debounce o) && eds_only o r
      then (mkDst (d_req s) (d_events s) (d_free s) (d_timer s) (d_inflight s) (d_committed s + 1), [PushNow r])
      else (mkDst (merge_o (d_req s) (Some r)) (d_events s + 1) (d_free s)
                  (if d_events s =? 0 then true else d_timer s) (d_inflight s) (d_committed s), [])
  | Tick ripe =>
      if d_timer s then
        let s' := mkDst (d_req s) (d_events s) (d_free s) false (d_inflight s) (d_committed s) in
        if d_free s then push_worker ripe s' else (s', [])
      else (s, [])              (* no timer is held: timeChan cannot be ready *)
  end.

Fixpoint drun (o : dopts) (s : dst) (is : list din) : dst * list dout :=
  match is with
  | [] => (s, [])
  | i :: rest =>
      let '(s1, o1) := dstep o s i in
      let '(s2, o2) := drun o s1 rest in
      (s2, o1 ++ o2)
  end.

(* the events that go through the debounced path, after fix_reason *)
Fixpoint debounced_inputs (o : dopts) (is : list din) : list req :=
  match is with
  | [] => []
  | Recv r0 :: rest =>
      let r := fix_reason r0 in
      if negb (eds_debounce o) && eds_only o r then debounced_inputs o rest
      else r :: debounced_inputs o rest
  | _ :: rest => debounced_inputs o rest
  end.

Fixpoint pushed (os : list dout) : list req :=
  match os with
  | [] => []
  | Push r _ :: t => r :: pushed t
  | PushNow _ :: t => pushed t
  end.

(* ------------------------------------------------------------------ sender (doSendPushes) *)

Record sst := mkSst {
  s_q : pq;
  s_tokens : nat;                     (* len(semaphore) *)
  s_cap : nat;                        (* cap(semaphore) *)
  s_loop : nat;                       (* 0 = before `semaphore <-`, 1 = holding a token before Dequeue, 2 = returned *)
  s_parked : list (conn * option req);(* event goroutines blocked in the select *)
  s_handed : list (conn * option req);(* events received by the client's stream loop, done() not yet called *)
  s_closed : list conn;               (* stream contexts that are Done *)
  s_stopped : bool;                   (* stopCh closed *)
  s_done_calls : list conn            (* ghost: every call of doneFunc *)
}.

Inductive sin :=
| SEnq (c : conn) (r : req)   (* somebody enqueues *)
| SAcquire                    (* semaphore <- struct{}{} *)
| STake                       (* queue.Dequeue() + go func(){...} *)
| SHand (c : conn)            (* client.PushCh() <- pushEv succeeds *)
| SClientDone (c : conn)      (* Connection.Push / StreamDeltas called pushEv.done() *)
| SClientFail (c : conn)      (* handed off, then stream.Send failed inside Connection.Push: done() still runs,
                                 the Stream loop returns the error and gRPC cancels the stream context *)
| SClose (c : conn)           (* the client's stream context is cancelled *)
| SDrop (c : conn)            (* the parked goroutine takes the closed / stopCh branch: doneFunc() *)
| SStop                       (* close(stopCh) *)
| SShutQueue.                 (* queue.ShutDown() *)

Definition mem (c : conn) (l : list conn) : bool := existsb (N.eqb c) l.

(* doneFunc: queue.MarkDone(client); <-semaphore *)
Definition done_func (s : sst) (c : conn) : sst :=
  mkSst (mark_done (s_q s) c) (pred (s_tokens s)) (s_cap s) (s_loop s) (s_parked s) (s_handed s)
        (s_closed s) (s_stopped s) (s_done_calls s ++ [c]).

Definition sstep (s : sst) (i : sin) : sst :=
  match i with
  | SEnq c r => mkSst (enqueue (s_q s) c r) (s_tokens s) (s_cap s) (s_loop s) (s_parked s) (s_handed s)
                      (s_closed s) (s_stopped s) (s_done_calls s)
  | SAcquire =>
      if Nat.eqb (s_loop s) 0 then
        if s_stopped s then
          mkSst (s_q s) (s_tokens s) (s_cap s) 2 (s_parked s) (s_handed s) (s_closed s) (s_stopped s) (s_done_calls s)
        else if Nat.ltb (s_tokens s) (s_cap s) then
          mkSst (s_q s) (S (s_tokens s)) (s_cap s) 1 (s_parked s) (s_handed s) (s_closed s) (s_stopped s) (s_done_calls s)
        else s
      else s
  | STake =>
      if Nat.eqb (s_loop s) 1 then
        match dequeue (s_q s) with
        | (_, DBlock) => s
        | (_, DShutdown) =>       (* returns holding its token *)
            mkSst (s_q s) (s_tokens s) (s_cap s) 2 (s_parked s) (s_handed s) (s_closed s) (s_stopped s) (s_done_calls s)
        | (q', DItem c r) =>
            mkSst q' (s_tokens s) (s_cap s) 0 (aset c r (s_parked s)) (s_handed s) (s_closed s) (s_stopped s)
                  (s_done_calls s)
        end
      else s
  | SHand c =>
      match alookup c (s_parked s) with
      | Some r => mkSst (s_q s) (s_tokens s) (s_cap s) (s_loop s) (aremove c (s_parked s))
                        (aset c r (s_handed s)) (s_closed s) (s_stopped s) (s_done_calls s)
      | None => s
      end
  | SClientDone c =>
      match alookup c (s_handed s) with
      | Some _ =>
          let s' := mkSst (s_q s) (s_tokens s) (s_cap s) (s_loop s) (s_parked s) (aremove c (s_handed s))
                          (s_closed s) (s_stopped s) (s_done_calls s) in
          done_func s' c
      | None => s
      end
  | SClientFail c =>
      match alookup c (s_handed s) with
      | Some _ =>
          let s' := mkSst (s_q s) (s_tokens s) (s_cap s) (s_loop s) (s_parked s) (aremove c (s_handed s))
                          (c :: s_closed s) (s_stopped s) (s_done_calls s) in
          done_func s' c
      | None => s
      end
  | SClose c => mkSst (s_q s) (s_tokens s) (s_cap s) (s_loop s) (s_parked s) (s_handed s)
                      (c :: s_closed s) (s_stopped s) (s_done_calls s)
  | SDrop c =>
      match alookup c (s_parked s) with
      | Some _ =>
          if mem c (s_closed s) || s_stopped s then
            let s' := mkSst (s_q s) (s_tokens s) (s_cap s) (s_loop s) (aremove c (s_parked s)) (s_handed s)
                            (s_closed s) (s_stopped s) (s_done_calls s) in
            done_func s' c
          else s
      | None => s
      end
  | SStop => mkSst (s_q s) (s_tokens s) (s_cap s) (s_loop s) (s_parked s) (s_handed s) (s_closed s) true
                   (s_done_calls s)
  | SShutQueue => mkSst (shutdown (s_q s)) (s_tokens s) (s_cap s) (s_loop s) (s_parked s) (s_handed s)
                        (s_closed s) (s_stopped s) (s_done_calls s)
  end.

Definition sst_init (cap : nat) := mkSst pq_empty 0 cap 0 [] [] [] false [].
Definition srun (cap : nat) (is : list sin) : sst := fold_left sstep is (sst_init cap).
