(* C02 property theorems only.  Vocabulary: Model.v (executable model of the Go code) and Spec.v
   (ucfg/uaddr/uwp = union of changed keys, anyforced, rc k = count of reason k, lastpush = newest snapshot). *)
From Coq Require Import List NArith Bool.
From V Require Import C02.Model C02.Spec C02.Proofs C02.Proofs2.
Import ListNotations.
Open Scope N_scope.

(* PushRequest.Merge: keys union, forced or, reasons add, older start, newest non-nil snapshot. *)
Theorem C02_merge_algebra : forall a b, algebra (merge_v a b) a b (newest (push a) (push b)).
Proof. exact merge_algebra. Qed.
Print Assumptions C02_merge_algebra.

(* PushRequest.CopyMerge: the same algebra (newerPushContext: other.Push if set, else pr.Push). *)
Theorem C02_copy_merge_algebra : forall a b, algebra (copy_merge_v a b) a b (newest (push a) (push b)).
Proof. exact copy_merge_algebra. Qed.
Print Assumptions C02_copy_merge_algebra.

(* PushQueue, every op sequence, every connection: what Dequeue handed out for c together with what is
   still parked for c carries exactly the keys / forced flag / reason counts of what Enqueue accepted for c. *)
Theorem C02_queue_no_loss : forall ops c,
  let l := qrun ops in
  let out := of_conn c (q_del l) ++ parked (q_st l) c in
  let inp := of_conn c (q_acc l) in
  ucfg out = ucfg inp /\ uaddr out = uaddr inp /\ uwp out = uwp inp /\ anyforced out = anyforced inp /\
  (forall k, rc k out = rc k inp).
Proof. exact queue_no_loss. Qed.
Print Assumptions C02_queue_no_loss.

(* ... and the newest snapshot accepted for c is the newest snapshot handed out / parked for c. *)
Theorem C02_queue_newest : forall ops c,
  let l := qrun ops in
  lastpush (of_conn c (q_del l) ++ parked (q_st l) c) = lastpush (of_conn c (q_acc l)).
Proof. exact queue_newest. Qed.
Print Assumptions C02_queue_newest.

(* One push in flight per connection: after any op sequence the queue invariant holds, hence what Dequeue
   returns is not in [processing] and carries a request. *)
Theorem C02_one_in_flight : forall ops q' c r,
  dequeue (q_st (qrun ops)) = (q', DItem c r) ->
  alookup c (processing (q_st (qrun ops))) = None /\ r <> None.
Proof. intros ops q' c r. apply dequeue_not_in_flight, qinv_qrun. Qed.
Print Assumptions C02_one_in_flight.

(* An Enqueue arriving while c is in flight is parked in [processing] and re-queued, merged, by MarkDone ... *)
Theorem C02_requeue_after_done : forall q c cur r,
  down q = false -> alookup c (processing q) = Some cur ->
  let q' := mark_done (enqueue q c r) c in
  alookup c (pending q') = copy_merge_o cur (Some r) /\ In c (queue q') /\ alookup c (processing q') = None.
Proof. exact enqueue_during_processing. Qed.
Print Assumptions C02_requeue_after_done.

(* ... and whoever sits at position n of the FIFO is handed its pending request by the (n+1)-th Dequeue. *)
Theorem C02_fifo_service : forall ops n c,
  nth_error (queue (q_st (qrun ops))) n = Some c ->
  exists r, snd (dequeue (deq_n n (q_st (qrun ops)))) = DItem c (Some r) /\
            alookup c (pending (q_st (qrun ops))) = Some r.
Proof. intros ops n c. apply dequeue_serves_position, qinv_qrun. Qed.
Print Assumptions C02_fifo_service.

(* Isolation: Enqueue / MarkDone for c leave what is stored for every other connection untouched. *)
Theorem C02_isolation : forall q c c' r, c <> c' ->
  (alookup c' (pending (enqueue q c r)) = alookup c' (pending q) /\
   alookup c' (processing (enqueue q c r)) = alookup c' (processing q)) /\
  (alookup c' (pending (mark_done q c)) = alookup c' (pending q) /\
   alookup c' (processing (mark_done q c)) = alookup c' (processing q)).
Proof. intros q c c' r H. split; [now apply enqueue_isolation|now apply mark_done_isolation]. Qed.
Print Assumptions C02_isolation.

(* debounce, every input sequence (receives, timer firings ripe or not, push completions): the pushed
   requests plus the one still held carry exactly what the debounced events carried, newest snapshot included. *)
Theorem C02_debounce_covers : forall o is,
  let '(s, outs) := drun o dst_init is in
  let out := pushed outs ++ match d_req s with Some r => [r] | None => [] end in
  let inp := debounced_inputs o is in
  ucfg out = ucfg inp /\ uaddr out = uaddr inp /\ uwp out = uwp inp /\ anyforced out = anyforced inp /\
  lastpush out = lastpush inp /\ (forall k, rc k out = rc k inp).
Proof. exact debounce_covers. Qed.
Print Assumptions C02_debounce_covers.

(* pushes out of debounce never overlap: a Push is emitted only when none is in flight (or by the very step
   that completes the previous one), alone, and it becomes the one in flight *)
Theorem C02_debounce_no_overlap : forall o is s outs0 i s' outs r n,
  drun o dst_init is = (s, outs0) -> dstep o s i = (s', outs) -> In (Push r n) outs ->
  outs = [Push r n] /\ d_inflight s' = Some n /\ d_req s = Some r /\ d_events s = n /\
  (d_inflight s = None \/ exists ripe, i = PushDone ripe).
Proof.
  intros o is s outs0 i s' outs r n Hrun. apply dstep_no_overlap.
  eapply dinv_run; [exact dinv_init|exact Hrun].
Qed.
Print Assumptions C02_debounce_no_overlap.

(* updateSent: committed + in flight + held = number of events received, at every moment *)
Theorem C02_debounce_committed : forall o is s outs,
  drun o dst_init is = (s, outs) -> dcount s = received is.
Proof.
  intros o is s outs H. rewrite (debounce_committed o is dst_init s outs dinv_init H). reflexivity.
Qed.
Print Assumptions C02_debounce_committed.

(* never stuck: in every reachable state, if something is held and no push is running a timer is armed; and
   "running push completes, timer fires ripe" always empties what is held *)
Theorem C02_debounce_progress : forall o is s outs,
  drun o dst_init is = (s, outs) ->
  (d_req s <> None -> d_free s = true -> d_timer s = true) /\
  d_req (fst (drun o s [PushDone true; Tick true])) = None.
Proof.
  intros o is s outs H. pose proof (dinv_run o is dst_init s outs dinv_init H) as Hi.
  split; [apply Hi|now apply debounce_flush].
Qed.
Print Assumptions C02_debounce_progress.

(* hypotheses are satisfiable / the statements are not vacuous *)
Example C02_ex_queue_merge :
  let a := mkReq (Some 1) None None (Some [(2, 1)]) (Some 1) 1 false in
  let b := mkReq (Some 4) (Some 2) None None (Some 2) 2 true in
  snd (dequeue (enqueue (enqueue pq_empty 7 a) 7 b)) =
  DItem 7 (Some (mkReq (Some 5) (Some 2) None (Some [(2, 1)]) (Some 2) 1 true)).
Proof. vm_compute. reflexivity. Qed.

Example C02_ex_debounce :
  let a := mkReq (Some 8) None None None None 1 false in
  let b := mkReq (Some 16) None None (Some [(2, 1)]) None 2 true in
  snd (drun (mkDopts true 7) dst_init [Recv a; Tick false; Recv b; Tick true]) =
  [Push (mkReq (Some 24) None None (Some [(0, 1); (2, 1)]) None 1 true) 2].
Proof. vm_compute. reflexivity. Qed.
