(* C02 property theorems only.  Vocabulary: Model.v (executable model of the Go code) and Spec.v
   (ucfg/uaddr/uwp = union of changed keys, anyforced, rc k = count of reason k, lastpush = newest snapshot). *)
From Coq Require Import List NArith Bool.
From V Require Import C02.Model C02.Spec C02.Proofs C02.Proofs2 C02.Proofs3 C02.Proofs4.
Import ListNotations.
Open Scope N_scope.

(* PushRequest.Merge: keys union, forced or, reasons add, older start, newest non-nil snapshot. *)
Theorem C02_merge_algebra : forall a b, algebra (merge_v a b) a b (newest (push a) (push b)).
Proof. exact merge_algebra. Qed.
Print Assumptions C02_merge_algebra.

(* PushRequest.CopyMerge: the same algebra (newerPushContext: other.Push if set, else pr.Push). *)
Theorem C02_copy_merge_algebra : forall a b, algebra (copy_merge_v a b) a b (newest (push a) (push b)).
Proof. exact copy_merge_algebra. Qed.
Print Assumptions C02_copy_merge_algebra.

(* PushQueue, every op sequence, every connection: what Dequeue handed out for c together with what is
   still parked for c carries exactly the keys / forced flag / reason counts of what Enqueue accepted for c. *)
Theorem C02_queue_no_loss : forall ops c,
  let l := qrun ops in
  let out := of_conn c (q_del l) ++ parked (q_st l) c in
  let inp := of_conn c (q_acc l) in
  ucfg out = ucfg inp /\ uaddr out = uaddr inp /\ uwp out = uwp inp /\ anyforced out = anyforced inp /\
  (forall k, rc k out = rc k inp).
Proof. exact queue_no_loss. Qed.
Print Assumptions C02_queue_no_loss.

(* ... and the newest snapshot accepted for c is the newest snapshot handed out / parked for c. *)
Theorem C02_queue_newest : forall ops c,
  let l := qrun ops in
  lastpush (of_conn c (q_del l) ++ parked (q_st l) c) = lastpush (of_conn c (q_acc l)).
Proof. exact queue_newest. Qed.
Print Assumptions C02_queue_newest.

(* One push in flight per connection: after any op sequence the queue invariant holds, hence what Dequeue
   returns is not in [processing] and carries a request. *)
Theorem C02_one_in_flight : forall ops q' c r,
  dequeue (q_st (qrun ops)) = (q', DItem c r) ->
  alookup c (processing (q_st (qrun ops))) = None /\ r <> None.
Proof. intros ops q' c r. apply dequeue_not_in_flight, qinv_qrun. Qed.
Print Assumptions C02_one_in_flight.

(* An Enqueue arriving while c is in flight is parked in [processing] and re-queued, merged, by MarkDone ... *)
Theorem C02_requeue_after_done : forall q c cur r,
  down q = false -> alookup c (processing q) = Some cur ->
  let q' := mark_done (enqueue q c r) c in
  alookup c (pending q') = copy_merge_o cur (Some r) /\ In c (queue q') /\ alookup c (processing q') = None.
Proof. exact enqueue_during_processing. Qed.
Print Assumptions C02_requeue_after_done.

(* ... and whoever sits at position n of the FIFO is handed its pending request by the (n+1)-th Dequeue. *)
Theorem C02_fifo_service : forall ops n c,
  nth_error (queue (q_st (qrun ops))) n = Some c ->
  exists r, snd (dequeue (deq_n n (q_st (qrun ops)))) = DItem c (Some r) /\
            alookup c (pending (q_st (qrun ops))) = Some r.
Proof. intros ops n c. apply dequeue_serves_position, qinv_qrun. Qed.
Print Assumptions C02_fifo_service.

(* Isolation: Enqueue / MarkDone for c leave what is stored for every other connection untouched. *)
Theorem C02_isolation : forall q c c' r, c <> c' ->
  (alookup c' (pending (enqueue q c r)) = alookup c' (pending q) /\
   alookup c' (processing (enqueue q c r)) = alookup c' (processing q)) /\
  (alookup c' (pending (mark_done q c)) = alookup c' (pending q) /\
   alookup c' (processing (mark_done q c)) = alookup c' (processing q)).
Proof. intros q c c' r H. split; [now apply enqueue_isolation|now apply mark_done_isolation]. Qed.
Print Assumptions C02_isolation.

(* debounce, every input sequence (receives, timer firings ripe or not, push completions): the pushed
   requests plus the one still held carry exactly what the debounced events carried, newest snapshot included. *)
Theorem C02_debounce_covers : forall o is,
  let '(s, outs) := drun o dst_init is in
  let out := pushed outs ++ match d_req s with Some r => [r] | None => [] end in
  let inp := debounced_inputs o is in
  ucfg out = ucfg inp /\ uaddr out = uaddr inp /\ uwp out = uwp inp /\ anyforced out = anyforced inp /\
  lastpush out = lastpush inp /\ (forall k, rc k out = rc k inp).
Proof. exact debounce_covers. Qed.
Print Assumptions C02_debounce_covers.

(* pushes out of debounce never overlap: a Push is emitted only when none is in flight (or by the very step
   that completes the previous one), alone, and it becomes the one in flight *)
Theorem C02_debounce_no_overlap : forall o is s outs0 i s' outs r n,
  drun o dst_init is = (s, outs0) -> dstep o s i = (s', outs) -> In (Push r n) outs ->
  outs = [Push r n] /\ d_inflight s' = Some n /\ d_req s = Some r /\ d_events s = n /\
  (d_inflight s = None \/ exists ripe, i = PushDone ripe).
Proof.
  intros o is s outs0 i s' outs r n Hrun. apply dstep_no_overlap.
  eapply dinv_run; [exact dinv_init|exact Hrun].
Qed.
Print Assumptions C02_debounce_no_overlap.

(* updateSent: committed + in flight + held = number of events received, at every moment *)
Theorem C02_debounce_committed : forall o is s outs,
  drun o dst_init is = (s, outs) -> dcount s = received is.
Proof.
  intros o is s outs H. rewrite (debounce_committed o is dst_init s outs dinv_init H). reflexivity.
Qed.
Print Assumptions C02_debounce_committed.

(* never stuck: in every reachable state, if something is held and no push is running a timer is armed; and
   "running push completes, timer fires ripe" always empties what is held *)
Theorem C02_debounce_progress : forall o is s outs,
  drun o dst_init is = (s, outs) ->
  (d_req s <> None -> d_free s = true -> d_timer s = true) /\
  d_req (fst (drun o s [PushDone true; Tick true])) = None.
Proof.
  intros o is s outs H. pose proof (dinv_run o is dst_init s outs dinv_init H) as Hi.
  split; [apply Hi|now apply debounce_flush].
Qed.
Print Assumptions C02_debounce_progress.

(* Heap level (pointers and Go maps explicit).  CopyMerge only allocates: the result is a brand-new
   cell and every cell / set / reason map that existed is bit-for-bit unchanged ... *)
Theorem C02_copy_merge_frame : forall h ra rb h' r,
  copy_merge_h h ra rb = (h', r) ->
  r = length (cells h) /\
  (forall i, (i < length (cells h))%nat -> hcell h' i = hcell h i) /\
  (forall m, (m < length (hsets h))%nat -> hset h' m = hset h m) /\
  (forall m, (m < length (hrmaps h))%nat -> hrmap h' m = hrmap h m).
Proof. exact copy_merge_frame. Qed.
Print Assumptions C02_copy_merge_frame.

(* ... so no request that existed (e.g. the one shared with every other proxy) changes its deep value. *)
Theorem C02_copy_merge_values_untouched : forall h ra rb h' r i,
  copy_merge_h h ra rb = (h', r) ->
  (i < length (cells h))%nat -> wf_cell h (hcell h i) -> deref h' i = deref h i.
Proof. exact copy_merge_values_untouched. Qed.
Print Assumptions C02_copy_merge_values_untouched.

(* Merge writes only its receiver: no other cell changes, no cell appears or disappears, and the only maps
   written are those the receiver's cell referenced before the call (or one fresh reason map). *)
Theorem C02_merge_frame : forall h ra rb,
  let h' := merge_h h ra rb in
  let ca := hcell h ra in
  (forall i, i <> ra -> hcell h' i = hcell h i) /\
  length (cells h') = length (cells h) /\
  (forall m, k_cfg ca <> Some m -> k_addr ca <> Some m -> k_wp ca <> Some m -> hset h' m = hset h m) /\
  (forall m, (m < length (hrmaps h))%nat -> k_reason ca <> Some m -> hrmap h' m = hrmap h m).
Proof. exact merge_frame. Qed.
Print Assumptions C02_merge_frame.

(* doSendPushes, every schedule (enqueues, token acquisition, dequeues, hand-over, client completion,
   send failure after hand-over (Connection.Push returns an error, the stream ends), stream closure at any
   moment, drops, stop, queue shutdown): the semaphore holds exactly one token per
   event that is still parked or handed (+ at most the loop's own) and never more than its capacity; a
   connection is in [processing] exactly while it has such an event (MarkDone ran for every finished
   event, however it finished); the queue invariant holds, so C02_fifo_service / C02_queue_no_loss keep
   applying to every other client. *)
Theorem C02_done_always : forall cap is,
  let s := srun cap is in
  qinv (s_q s) /\
  (forall c, alookup c (processing (s_q s)) <> None <->
             (alookup c (s_parked s) <> None \/ alookup c (s_handed s) <> None)) /\
  (s_loop s = 0%nat -> s_tokens s = out_events s) /\
  (s_loop s = 1%nat -> s_tokens s = S (out_events s)) /\
  (out_events s <= s_tokens s <= S (out_events s))%nat /\
  (s_tokens s <= s_cap s)%nat.
Proof.
  intros cap is. cbn zeta.
  destruct (sender_invariant cap is) as (A & _ & _ & B & _ & C & D & E & F & _).
  split; [exact A|]. split; [exact B|]. split; [exact C|]. split; [exact D|]. split; [exact E|exact F].
Qed.
Print Assumptions C02_done_always.

(* after every client has finished or gone away nothing is held: at most the loop's own token is left
   and nobody is stuck in [processing] *)
Theorem C02_all_released : forall cap is,
  let s := srun cap is in
  s_parked s = [] -> s_handed s = [] ->
  (s_tokens s <= 1)%nat /\ (forall c, alookup c (processing (s_q s)) = None).
Proof.
  intros cap is. cbn zeta. intros HP HH.
  destruct (sender_invariant cap is) as (_ & _ & _ & B & _ & _ & _ & E & _).
  unfold out_events in E. rewrite HP, HH in *. cbn in E. split; [apply E|].
  intros c. destruct (alookup c (processing (s_q (srun cap is)))) eqn:X; [|reflexivity].
  exfalso. assert (Y : alookup c (processing (s_q (srun cap is))) <> None) by congruence.
  apply B in Y. cbn in Y. destruct Y as [Y|Y]; congruence.
Qed.
Print Assumptions C02_all_released.

(* hypotheses are satisfiable / the statements are not vacuous *)
Example C02_ex_queue_merge :
  let a := mkReq (Some 1) None None (Some [(2, 1)]) (Some 1) 1 false in
  let b := mkReq (Some 4) (Some 2) None None (Some 2) 2 true in
  snd (dequeue (enqueue (enqueue pq_empty 7 a) 7 b)) =
  DItem 7 (Some (mkReq (Some 5) (Some 2) None (Some [(2, 1)]) (Some 2) 1 true)).
Proof. vm_compute. reflexivity. Qed.

Example C02_ex_debounce :
  let a := mkReq (Some 8) None None None None 1 false in
  let b := mkReq (Some 16) None None (Some [(2, 1)]) None 2 true in
  snd (drun (mkDopts true 7) dst_init [Recv a; Tick false; Recv b; Tick true]) =
  [Push (mkReq (Some 24) None None (Some [(0, 1); (2, 1)]) None 1 true) 2].
Proof. vm_compute. reflexivity. Qed.

Example C02_ex_sender_close_while_parked :
  let r := mkReq (Some 1) None None None (Some 1) 1 false in
  let s := srun 1 [SEnq 5 r; SAcquire; STake; SClose 5; SDrop 5; SEnq 6 r; SAcquire; STake; SHand 6] in
  (s_tokens s, s_done_calls s, alookup 6 (s_handed s)) = (1%nat, [5], Some (Some r)).
Proof. vm_compute. reflexivity. Qed.

Example C02_ex_sender_send_failure_mid_push :
  let r := mkReq (Some 1) None None None (Some 1) 1 false in
  let s := srun 1 [SEnq 5 r; SAcquire; STake; SHand 5; SClientFail 5; SEnq 6 r; SAcquire; STake; SHand 6] in
  (s_tokens s, s_done_calls s, alookup 5 (processing (s_q s)), alookup 6 (s_handed s)) =
  (1%nat, [5], None, Some (Some r)).
Proof. vm_compute. reflexivity. Qed.
