(* C02 property theorems only. *)
From Coq Require Import List NArith Bool.
From V Require Import C02.Model C02.Proofs.

Theorem C02_merge_forced : forall a b, forced (merge_v a b) = (forced a || forced b)%bool.
Proof. exact merge_forced. Qed.
Print Assumptions C02_merge_forced.
