(* C02 proofs, part 3: the heap level.  CopyMerge only allocates (every request and every map that
   existed keeps its content); Merge overwrites only its receiver's cell and the maps that cell owns. *)
From Coq Require Import List NArith Bool Lia PeanoNat.
From V Require Import C02.Model.
Import ListNotations.

(* ------------------------------------------------------------------ lists *)

Lemma nth_upd_other {A} (d x : A) : forall (l : list A) n m, n <> m -> nth m (upd n x l) d = nth m l d.
Proof.
  induction l as [|y l IH]; intros n m Hne; [destruct n; reflexivity|].
  destruct n, m; cbn; try reflexivity; try congruence. apply IH. congruence.
Qed.

Lemma length_upd {A} (x : A) : forall (l : list A) n, length (upd n x l) = length l.
Proof. induction l as [|y l IH]; intros [|n]; cbn; auto. Qed.

Lemma nth_app_old {A} (d : A) l l' m : (m < length l)%nat -> nth m (l ++ l') d = nth m l d.
Proof. intros H. now apply app_nth1. Qed.

(* ------------------------------------------------------------------ CopyMerge allocates only *)

(* h' extends h: same cells, maps only appended *)
Definition mgrows (h h' : heap) : Prop :=
  cells h' = cells h /\ (exists b, hsets h' = hsets h ++ b) /\ (exists c, hrmaps h' = hrmaps h ++ c).

Lemma mgrows_refl h : mgrows h h.
Proof. split; [reflexivity|]. split; exists []; now rewrite app_nil_r. Qed.

Lemma mgrows_trans h1 h2 h3 : mgrows h1 h2 -> mgrows h2 h3 -> mgrows h1 h3.
Proof.
  intros (A & (b & B) & (c & C)) (A' & (b' & B') & (c' & C')).
  split; [congruence|]. split.
  - exists (b ++ b'). now rewrite B', B, app_assoc.
  - exists (c ++ c'). now rewrite C', C, app_assoc.
Qed.

Lemma mgrows_alloc_rmap h v h' r : alloc_rmap h v = (h', r) -> mgrows h h'.
Proof.
  unfold alloc_rmap. intros H; injection H as <- _. split; [reflexivity|]. split; cbn.
  - exists []. now rewrite app_nil_r.
  - now exists [v].
Qed.

Lemma mgrows_alloc_oset h v h' f : alloc_oset h v = (h', f) -> mgrows h h'.
Proof.
  unfold alloc_oset. destruct v as [x|].
  - unfold alloc_set. intros H; injection H as <- _. split; [reflexivity|]. split; cbn.
    + now exists [x].
    + exists []. now rewrite app_nil_r.
  - intros H; injection H as <- _. apply mgrows_refl.
Qed.

Lemma copy_merge_h_shape h ra rb h' r :
  copy_merge_h h ra rb = (h', r) ->
  r = length (cells h) /\
  (exists c, cells h' = cells h ++ [c]) /\ (exists b, hsets h' = hsets h ++ b) /\ (exists m, hrmaps h' = hrmaps h ++ m).
Proof.
  unfold copy_merge_h.
  set (v := copy_merge_v (deref h ra) (deref h rb)).
  assert (G1 : exists h1 fr,
             match reason v with
             | Some m => let '(h'0, r0) := alloc_rmap h m in (h'0, Some r0)
             | None => (h, None)
             end = (h1, fr) /\ mgrows h h1).
  { destruct (reason v) as [m|].
    - destruct (alloc_rmap h m) as [h1 r1] eqn:E. exists h1, (Some r1). split; [reflexivity|].
      eapply mgrows_alloc_rmap; eassumption.
    - exists h, None. split; [reflexivity|apply mgrows_refl]. }
  destruct G1 as (h1 & fr & -> & M1).
  destruct (alloc_oset h1 (cfg v)) as [h2 fc] eqn:E2. pose proof (mgrows_alloc_oset _ _ _ _ E2) as M2.
  destruct (alloc_oset h2 (addr v)) as [h3 fa] eqn:E3. pose proof (mgrows_alloc_oset _ _ _ _ E3) as M3.
  destruct (alloc_oset h3 (wp v)) as [h4 fw] eqn:E4. pose proof (mgrows_alloc_oset _ _ _ _ E4) as M4.
  pose proof (mgrows_trans _ _ _ (mgrows_trans _ _ _ (mgrows_trans _ _ _ M1 M2) M3) M4) as (C & S & R).
  unfold alloc_cell. intros H; injection H as <- <-. cbn [cells hsets hrmaps].
  rewrite C. split; [reflexivity|]. split; [eexists; reflexivity|]. split; assumption.
Qed.

(* every pre-existing cell and map is unchanged; the result is a brand-new cell *)
Theorem copy_merge_frame h ra rb h' r :
  copy_merge_h h ra rb = (h', r) ->
  r = length (cells h) /\
  (forall i, (i < length (cells h))%nat -> hcell h' i = hcell h i) /\
  (forall m, (m < length (hsets h))%nat -> hset h' m = hset h m) /\
  (forall m, (m < length (hrmaps h))%nat -> hrmap h' m = hrmap h m).
Proof.
  intros H. apply copy_merge_h_shape in H. destruct H as (Hr & (c & C) & (b & B) & (m & R)).
  split; [exact Hr|]. unfold hcell, hset, hrmap. rewrite C, B, R.
  repeat split; intros; now apply nth_app_old.
Qed.

(* a cell whose map references are in range *)
Definition wf_ref (n : nat) (o : option nat) : Prop := match o with Some m => (m < n)%nat | None => True end.
Definition wf_cell (h : heap) (c : cell) : Prop :=
  wf_ref (length (hsets h)) (k_cfg c) /\ wf_ref (length (hsets h)) (k_addr c) /\
  wf_ref (length (hsets h)) (k_wp c) /\ wf_ref (length (hrmaps h)) (k_reason c).

(* ... hence every request that existed keeps its deep value: nobody else's view changes *)
Theorem copy_merge_values_untouched h ra rb h' r i :
  copy_merge_h h ra rb = (h', r) ->
  (i < length (cells h))%nat -> wf_cell h (hcell h i) -> deref h' i = deref h i.
Proof.
  intros H Hi (W1 & W2 & W3 & W4). destruct (copy_merge_frame _ _ _ _ _ H) as (_ & Hc & Hs & Hm).
  unfold deref. rewrite (Hc i Hi). set (c := hcell h i) in *.
  assert (S : forall o, wf_ref (length (hsets h)) o -> hoset h' o = hoset h o).
  { intros [m|] W; cbn; [|reflexivity]. now rewrite Hs. }
  assert (Rm : forall o, wf_ref (length (hrmaps h)) o -> hrm h' o = hrm h o).
  { intros [m|] W; cbn; [|reflexivity]. now rewrite Hm. }
  now rewrite (S _ W1), (S _ W2), (S _ W3), (Rm _ W4).
Qed.

(* ------------------------------------------------------------------ Merge mutates only its receiver *)

Lemma merge_set_h_frame h fa fb h' f :
  merge_set_h h fa fb = (h', f) ->
  cells h' = cells h /\ hrmaps h' = hrmaps h /\ length (hsets h') = length (hsets h) /\
  (forall m, fa <> Some m -> hset h' m = hset h m).
Proof.
  unfold merge_set_h. destruct fa as [ma|]; intros H; injection H as <- _.
  - cbn [set_hset cells hrmaps hsets]. repeat split; [apply length_upd|].
    intros m Hne. unfold hset; cbn [hsets]. apply nth_upd_other. congruence.
  - repeat split; reflexivity.
Qed.

Lemma merge_reason_h_frame h fa fb h' f :
  merge_reason_h h fa fb = (h', f) ->
  cells h' = cells h /\ hsets h' = hsets h /\
  (forall m, (m < length (hrmaps h))%nat -> fa <> Some m -> hrmap h' m = hrmap h m).
Proof.
  unfold merge_reason_h. destruct (rlen0 (hrm h fb)).
  - intros H; injection H as <- _. repeat split; reflexivity.
  - destruct fa as [ma|].
    + intros H; injection H as <- _. cbn [set_hrmap cells hsets hrmaps]. repeat split.
      intros m _ Hne. unfold hrmap; cbn [hrmaps]. apply nth_upd_other. congruence.
    + unfold alloc_rmap. cbv beta iota. intros H; injection H as <- _. cbn [set_hrmap cells hsets hrmaps]. repeat split.
      intros m Hlt _. unfold hrmap; cbn [hrmaps set_hrmap].
      rewrite nth_upd_other by lia. now apply nth_app_old.
Qed.

(* PushRequest.Merge(ra, rb): no other request's cell changes, no request appears or disappears, and the
   only maps written are the ones the receiver's cell referenced before the call (+ one fresh reason map) *)
Theorem merge_frame h ra rb :
  let h' := merge_h h ra rb in
  let ca := hcell h ra in
  (forall i, i <> ra -> hcell h' i = hcell h i) /\
  length (cells h') = length (cells h) /\
  (forall m, k_cfg ca <> Some m -> k_addr ca <> Some m -> k_wp ca <> Some m -> hset h' m = hset h m) /\
  (forall m, (m < length (hrmaps h))%nat -> k_reason ca <> Some m -> hrmap h' m = hrmap h m).
Proof.
  cbn zeta. unfold merge_h.
  set (ca := hcell h ra). set (cb := hcell h rb).
  destruct (merge_reason_h h (k_reason ca) (k_reason cb)) as [h1 fr] eqn:E1.
  destruct (merge_set_h h1 (k_cfg ca) (k_cfg cb)) as [h2 fc] eqn:E2.
  destruct (merge_set_h h2 (k_addr ca) (k_addr cb)) as [h3 fa] eqn:E3.
  destruct (merge_set_h h3 (k_wp ca) (k_wp cb)) as [h4 fw] eqn:E4.
  destruct (merge_reason_h_frame _ _ _ _ _ E1) as (C1 & S1 & R1).
  destruct (merge_set_h_frame _ _ _ _ _ E2) as (C2 & R2 & L2 & S2).
  destruct (merge_set_h_frame _ _ _ _ _ E3) as (C3 & R3 & L3 & S3).
  destruct (merge_set_h_frame _ _ _ _ _ E4) as (C4 & R4 & L4 & S4).
  unfold set_cell, hcell, hset, hrmap in *; cbn [cells hsets hrmaps].
  split; [|split; [|split]].
  - intros i Hne. rewrite nth_upd_other by congruence. now rewrite C4, C3, C2, C1.
  - rewrite length_upd. now rewrite C4, C3, C2, C1.
  - intros m H1 H2 H3. rewrite (S4 m H3), (S3 m H2), (S2 m H1). now rewrite S1.
  - intros m Hlt Hne. rewrite R4, R3, R2. now apply R1.
Qed.
