(* C02 proofs, part 4: doSendPushes — done() always runs.  For every schedule of the sender model
   (enqueues, token acquisition, dequeues, hand-over to the client loop, client completion, stream
   closure, drops, stop, queue shutdown):  the semaphore holds exactly one token per event that is still
   parked or handed (plus the loop's own), and a connection is in [processing] exactly while it has such
   an event — i.e. MarkDone and the token release have happened for every finished event, whatever way
   it finished, and for no unfinished one. *)
From Coq Require Import List NArith Bool Lia PeanoNat.
From V Require Import C02.Model C02.Proofs.
Import ListNotations.
Open Scope N_scope.

(* ------------------------------------------------------------------ keys of association lists *)

Section Keys.
  Context {V : Type}.
  Implicit Types (l : list (conn * V)).

  Definition akeys l : list conn := map fst l.

  Lemma alookup_keys c l : alookup c l <> None <-> In c (akeys l).
  Proof.
    induction l as [|[c' v] l IH]; cbn; [tauto|].
    destruct (N.eqb_spec c c') as [->|Hne].
    - split; [auto|discriminate].
    - rewrite IH. split; [auto|]. intros [H|H]; [congruence|exact H].
  Qed.

  Lemma akeys_aremove c l : akeys (aremove c l) = filter (fun x => negb (c =? x)) (akeys l).
  Proof.
    unfold aremove, akeys. induction l as [|[c' v] l IH]; cbn; [reflexivity|].
    destruct (c =? c'); cbn; now rewrite IH.
  Qed.

  Lemma nodup_aremove c l : NoDup (akeys l) -> NoDup (akeys (aremove c l)).
  Proof. rewrite akeys_aremove. apply NoDup_filter. Qed.

  Lemma aremove_absent c l : ~ In c (akeys l) -> aremove c l = l.
  Proof.
    unfold aremove. induction l as [|[c' v] l IH]; cbn; intros H; [reflexivity|].
    destruct (N.eqb_spec c c') as [->|Hne]; [tauto|]. cbn. f_equal. apply IH. tauto.
  Qed.

  Lemma length_aremove c l : NoDup (akeys l) -> In c (akeys l) -> S (length (aremove c l)) = length l.
  Proof.
    induction l as [|[c' v] l IH]; cbn; intros Hnd Hin; [contradiction|].
    inversion Hnd as [|? ? Hni Hnd']; subst.
    destruct (N.eqb_spec c c') as [->|Hne]; cbn.
    - change (filter (fun p => negb (c' =? fst p)) l) with (aremove c' l).
      now rewrite aremove_absent.
    - f_equal. apply IH; [assumption|]. destruct Hin; [congruence|assumption].
  Qed.

  Lemma nodup_aset c v l : NoDup (akeys l) -> NoDup (akeys (aset c v l)).
  Proof.
    intros H. unfold aset; cbn. constructor; [|now apply nodup_aremove].
    rewrite akeys_aremove, filter_In, N.eqb_refl. cbn. intros [_ X]; discriminate.
  Qed.

  Lemma length_aset_new c v l : ~ In c (akeys l) -> length (aset c v l) = S (length l).
  Proof. intros H. unfold aset; cbn. now rewrite aremove_absent. Qed.
End Keys.

Lemma alookup_processing_enqueue q c r c' :
  alookup c' (processing (enqueue q c r)) <> None <-> alookup c' (processing q) <> None.
Proof.
  unfold enqueue. destruct (down q); [tauto|].
  destruct (alookup c (processing q)) as [cur|] eqn:E; cbn [processing].
  - destruct (N.eq_dec c c') as [->|Hne].
    + rewrite alookup_aset_same, E. split; discriminate.
    + rewrite alookup_aset_other by exact Hne. tauto.
  - destruct (alookup c (pending q)); cbn [processing]; tauto.
Qed.

Lemma alookup_processing_mark_done_same q c : alookup c (processing (mark_done q c)) = None.
Proof.
  unfold mark_done. destruct (alookup c (processing q)) as [[r|]|]; cbn [processing]; apply alookup_aremove_same.
Qed.

(* ------------------------------------------------------------------ invariant *)

Definition out_events (s : sst) : nat := (length (s_parked s) + length (s_handed s))%nat.

Definition sinv (s : sst) : Prop :=
  qinv (s_q s) /\
  NoDup (akeys (s_parked s)) /\ NoDup (akeys (s_handed s)) /\
  (forall c, alookup c (processing (s_q s)) <> None <->
             (alookup c (s_parked s) <> None \/ alookup c (s_handed s) <> None)) /\
  (forall c, alookup c (s_parked s) <> None -> alookup c (s_handed s) <> None -> False) /\
  (* token accounting *)
  (s_loop s = 0%nat -> s_tokens s = out_events s) /\
  (s_loop s = 1%nat -> s_tokens s = S (out_events s)) /\
  (out_events s <= s_tokens s <= S (out_events s))%nat /\
  (s_tokens s <= s_cap s)%nat /\ (s_loop s <= 2)%nat.

Lemma sinv_init cap : sinv (sst_init cap).
Proof.
  unfold sinv, sst_init, out_events; cbn. repeat split; try (constructor); try tauto; try lia;
    try (intros [H|H]; congruence); try exact qinv_empty.
  all: try (destruct qinv_empty as (A & B & C); auto).
Qed.

(* doneFunc for an event of c that has just been removed from parked/handed *)
Lemma sinv_done s c P' H' :
  qinv (s_q s) ->
  NoDup (akeys P') -> NoDup (akeys H') ->
  (forall c', alookup c' (processing (s_q s)) <> None <->
              (c' = c \/ alookup c' P' <> None \/ alookup c' H' <> None)) ->
  alookup c P' = None -> alookup c H' = None ->
  (forall c', alookup c' P' <> None -> alookup c' H' <> None -> False) ->
  (s_loop s = 0%nat -> s_tokens s = S (length P' + length H')) ->
  (s_loop s = 1%nat -> s_tokens s = S (S (length P' + length H'))) ->
  (S (length P' + length H') <= s_tokens s <= S (S (length P' + length H')))%nat ->
  (s_tokens s <= s_cap s)%nat -> (s_loop s <= 2)%nat ->
  sinv (done_func (mkSst (s_q s) (s_tokens s) (s_cap s) (s_loop s) P' H' (s_closed s) (s_stopped s) (s_done_calls s)) c).
Proof.
  intros Hq Hp Hh Hpr HcP HcH Hd T0 T1 Tb Tc Tl.
  unfold done_func, sinv, out_events; cbn [s_q s_tokens s_cap s_loop s_parked s_handed].
  split; [now apply qinv_mark_done|]. split; [exact Hp|]. split; [exact Hh|]. split.
  - intros c'. destruct (N.eq_dec c c') as [<-|Hne].
    + rewrite alookup_processing_mark_done_same, HcP, HcH. split; [congruence|intros [X|X]; congruence].
    + destruct (mark_done_isolation (s_q s) c c' Hne) as [_ ->]. rewrite Hpr. split; [|tauto].
      intros [X|X]; [congruence|exact X].
  - split; [exact Hd|]. repeat split; lia.
Qed.

Ltac same_lists :=
  split; [assumption|]; split; [assumption|]; split; [assumption|]; split; [assumption|]; split; [assumption|];
  repeat split; try assumption; try lia.

Lemma sinv_step s i : sinv s -> sinv (sstep s i).
Proof.
  intros Hs. pose proof Hs as (Hq & Hp & Hh & Hpr & Hd & T0 & T1 & Tb & Tc & Tl).
  destruct i as [c r| | |c|c|c|c|c| |]; cbn [sstep].
  - (* SEnq *)
    unfold sinv, out_events in *; cbn [s_q s_tokens s_cap s_loop s_parked s_handed].
    split; [now apply qinv_enqueue|]. split; [exact Hp|]. split; [exact Hh|]. split.
    + intros c'. rewrite alookup_processing_enqueue. apply Hpr.
    + repeat split; assumption || lia.
  - (* SAcquire *)
    destruct (Nat.eqb_spec (s_loop s) 0) as [L|L]; [|exact Hs].
    destruct (s_stopped s).
    + unfold sinv, out_events in *; cbn [s_q s_tokens s_cap s_loop s_parked s_handed].
      same_lists.
    + destruct (Nat.ltb_spec (s_tokens s) (s_cap s)) as [Lt|Ge]; [|exact Hs].
      unfold sinv, out_events in *; cbn [s_q s_tokens s_cap s_loop s_parked s_handed].
      same_lists.
  - (* STake *)
    destruct (Nat.eqb_spec (s_loop s) 1) as [L|L]; [|exact Hs].
    destruct (dequeue (s_q s)) as [q' res] eqn:Edq. destruct res as [| |c r].
    + exact Hs.
    + unfold sinv, out_events in *; cbn [s_q s_tokens s_cap s_loop s_parked s_handed].
      same_lists.
    + destruct (dequeue_not_in_flight _ _ _ _ Hq Edq) as [Hnp _].
      assert (HnP : alookup c (s_parked s) = None).
      { destruct (alookup c (s_parked s)) eqn:E; [|reflexivity].
        exfalso. assert (X : alookup c (processing (s_q s)) <> None) by (apply Hpr; left; congruence). congruence. }
      assert (HnH : alookup c (s_handed s) = None).
      { destruct (alookup c (s_handed s)) eqn:E; [|reflexivity].
        exfalso. assert (X : alookup c (processing (s_q s)) <> None) by (apply Hpr; right; congruence). congruence. }
      assert (Hq' : q' = fst (dequeue (s_q s))) by now rewrite Edq.
      assert (Hproc : forall c', alookup c' (processing q') <> None <-> (c' = c \/ alookup c' (processing (s_q s)) <> None)).
      { intros c'. revert Edq. unfold dequeue. destruct (queue (s_q s)) as [|c0 rest]; [destruct (down (s_q s)); discriminate|].
        intros X; injection X as <- <- _. cbn [processing].
        destruct (N.eq_dec c0 c') as [->|Hne].
        - rewrite alookup_aset_same. split; [auto|discriminate].
        - rewrite alookup_aset_other by exact Hne. split; [auto|]. intros [X|X]; [congruence|exact X]. }
      unfold sinv, out_events in *; cbn [s_q s_tokens s_cap s_loop s_parked s_handed].
      split; [rewrite Hq'; now apply qinv_dequeue|]. split; [now apply nodup_aset|]. split; [exact Hh|].
      rewrite length_aset_new by (rewrite <- alookup_keys; congruence).
      split; [|split].
      * intros c'. rewrite Hproc, Hpr. destruct (N.eq_dec c c') as [->|Hne].
        -- rewrite alookup_aset_same. split; [left; discriminate|auto].
        -- rewrite alookup_aset_other by exact Hne. split; [intros [X|X]; [congruence|exact X]|auto].
      * intros c'. destruct (N.eq_dec c c') as [->|Hne].
        -- intros _ X. congruence.
        -- rewrite alookup_aset_other by exact Hne. apply Hd.
      * repeat split; try assumption; lia.
  - (* SHand *)
    destruct (alookup c (s_parked s)) as [r|] eqn:E; [|exact Hs].
    assert (Hin : In c (akeys (s_parked s))) by (apply alookup_keys; congruence).
    assert (HnH : alookup c (s_handed s) = None).
    { destruct (alookup c (s_handed s)) eqn:E2; [|reflexivity]. exfalso. apply (Hd c); congruence. }
    pose proof (length_aremove c (s_parked s) Hp Hin) as Len.
    unfold sinv, out_events in *; cbn [s_q s_tokens s_cap s_loop s_parked s_handed].
    split; [exact Hq|]. split; [now apply nodup_aremove|]. split; [now apply nodup_aset|].
    rewrite length_aset_new by (rewrite <- alookup_keys; congruence).
    split; [|split].
    + intros c'. rewrite Hpr. destruct (N.eq_dec c c') as [->|Hne].
      * rewrite alookup_aremove_same, alookup_aset_same, E. split; [right; discriminate|left; discriminate].
      * rewrite alookup_aremove_other, alookup_aset_other by exact Hne. tauto.
    + intros c'. destruct (N.eq_dec c c') as [->|Hne].
      * rewrite alookup_aremove_same. congruence.
      * rewrite alookup_aremove_other, alookup_aset_other by exact Hne. apply Hd.
    + repeat split; try assumption; lia.
  - (* SClientDone *)
    destruct (alookup c (s_handed s)) as [r|] eqn:E; [|exact Hs].
    assert (Hin : In c (akeys (s_handed s))) by (apply alookup_keys; congruence).
    assert (HnP : alookup c (s_parked s) = None).
    { destruct (alookup c (s_parked s)) eqn:E2; [|reflexivity]. exfalso. apply (Hd c); congruence. }
    pose proof (length_aremove c (s_handed s) Hh Hin) as Len. unfold out_events in *.
    apply sinv_done; try assumption; try lia.
    + now apply nodup_aremove.
    + intros c'. rewrite Hpr. destruct (N.eq_dec c c') as [->|Hne].
      * rewrite E. split; [auto|]. intros _. right. discriminate.
      * rewrite alookup_aremove_other by exact Hne. split; [auto|]. intros [X|X]; [congruence|exact X].
    + apply alookup_aremove_same.
    + intros c'. destruct (N.eq_dec c c') as [->|Hne].
      * rewrite alookup_aremove_same. congruence.
      * rewrite alookup_aremove_other by exact Hne. apply Hd.
  - (* SClientFail: same release, the stream is also marked closed *)
    destruct (alookup c (s_handed s)) as [r|] eqn:E; [|exact Hs].
    assert (Hin : In c (akeys (s_handed s))) by (apply alookup_keys; congruence).
    assert (HnP : alookup c (s_parked s) = None).
    { destruct (alookup c (s_parked s)) eqn:E2; [|reflexivity]. exfalso. apply (Hd c); congruence. }
    pose proof (length_aremove c (s_handed s) Hh Hin) as Len. unfold out_events in *.
    apply (sinv_done (mkSst (s_q s) (s_tokens s) (s_cap s) (s_loop s) (s_parked s) (s_handed s) (c :: s_closed s) (s_stopped s) (s_done_calls s)) c); cbn [s_q s_tokens s_cap s_loop]; try assumption; try lia.
    + now apply nodup_aremove.
    + intros c'. rewrite Hpr. destruct (N.eq_dec c c') as [->|Hne].
      * rewrite E. split; [auto|]. intros _. right. discriminate.
      * rewrite alookup_aremove_other by exact Hne. split; [auto|]. intros [X|X]; [congruence|exact X].
    + apply alookup_aremove_same.
    + intros c'. destruct (N.eq_dec c c') as [->|Hne].
      * rewrite alookup_aremove_same. congruence.
      * rewrite alookup_aremove_other by exact Hne. apply Hd.
  - (* SClose *)
    exact Hs.
  - (* SDrop *)
    destruct (alookup c (s_parked s)) as [r|] eqn:E; [|exact Hs].
    destruct (mem c (s_closed s) || s_stopped s); [|exact Hs].
    assert (Hin : In c (akeys (s_parked s))) by (apply alookup_keys; congruence).
    assert (HnH : alookup c (s_handed s) = None).
    { destruct (alookup c (s_handed s)) eqn:E2; [|reflexivity]. exfalso. apply (Hd c); congruence. }
    pose proof (length_aremove c (s_parked s) Hp Hin) as Len. unfold out_events in *.
    apply sinv_done; try assumption; try lia.
    + now apply nodup_aremove.
    + intros c'. rewrite Hpr. destruct (N.eq_dec c c') as [->|Hne].
      * rewrite E. split; [auto|]. intros _. left. discriminate.
      * rewrite alookup_aremove_other by exact Hne. split; [auto|]. intros [X|X]; [congruence|exact X].
    + apply alookup_aremove_same.
    + intros c'. destruct (N.eq_dec c c') as [->|Hne].
      * rewrite alookup_aremove_same. congruence.
      * rewrite alookup_aremove_other by exact Hne. apply Hd.
  - (* SStop *)
    exact Hs.
  - (* SShutQueue *)
    unfold sinv, out_events in *; cbn [s_q s_tokens s_cap s_loop s_parked s_handed].
    split; [exact (qinv_qstep _ Shut Hq)|]. cbn [shutdown processing]. same_lists.
Qed.

Theorem sender_invariant cap is : sinv (srun cap is).
Proof.
  unfold srun. apply (fold_left_inv sstep sinv); [intros; now apply sinv_step|apply sinv_init].
Qed.

