(* C02 — specification vocabulary shared by the theorems (Props.v) and the oracle (Run.v):
   what a list of requests carries together.  No step function of Model.v is used here. *)
From Coq Require Import List NArith Bool.
From V Require Import C02.Model.
Import ListNotations.
Open Scope N_scope.

Definition oN_eqb (a b : option N) : bool :=
  match a, b with Some x, Some y => x =? y | None, None => true | _, _ => false end.


Definition newest (a b : option N) : option N := match b with Some p => Some p | None => a end.

Definition keys_of (m : rmap) : list N := map fst m.
Definition rkeys (rs : list req) : list N := flat_map (fun r => keys_of (rget (reason r))) rs.

Definition ucfg (l : list req) : N := fold_right (fun r acc => N.lor (bits (cfg r)) acc) 0 l.
Definition uaddr (l : list req) : N := fold_right (fun r acc => N.lor (bits (addr r)) acc) 0 l.
Definition uwp (l : list req) : N := fold_right (fun r acc => N.lor (bits (wp r)) acc) 0 l.
Definition anyforced (l : list req) : bool := existsb forced l.
Definition rc (k : N) (l : list req) : N := fold_right (fun r acc => rcount k (rget (reason r)) + acc) 0 l.
Definition lastpush (l : list req) : option N := fold_left (fun acc r => newest acc (push r)) l None.

(* [big] carries exactly what the requests of [parts] carry together (keys, forced, reasons, newest snapshot) *)
Definition covers_exactly (big parts : list req) : bool :=
  (ucfg big =? ucfg parts) && (uaddr big =? uaddr parts) && (uwp big =? uwp parts) &&
  Bool.eqb (anyforced big) (anyforced parts) &&
  forallb (fun k => rc k big =? rc k parts) (rkeys big ++ rkeys parts) &&
  oN_eqb (lastpush big) (lastpush parts).

