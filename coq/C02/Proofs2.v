(* C02 proofs, part 2: nothing is lost — the queue ledger and the debounce ledger, for every monoid-valued
   measure that the merge functions respect; instances for keys/forced/snapshot and reason counts. *)
From Coq Require Import List NArith Bool Lia.
From V Require Import C02.Model C02.Spec C02.Proofs.
Import ListNotations.
Open Scope N_scope.

(* ------------------------------------------------------------------ of_conn *)

Lemma of_conn_snoc_same c l r : of_conn c (l ++ [(c, r)]) = of_conn c l ++ [r].
Proof. unfold of_conn. rewrite filter_app, map_app. cbn. now rewrite N.eqb_refl. Qed.

Lemma of_conn_snoc_other c c' l r : c' <> c -> of_conn c' (l ++ [(c, r)]) = of_conn c' l.
Proof.
  intros Hne. unfold of_conn. rewrite filter_app, map_app. cbn.
  destruct (N.eqb_spec c' c); [contradiction|]. cbn. apply app_nil_r.
Qed.

Section Ledger.
  Variable M : Type.
  Variable op : M -> M -> M.
  Variable e : M.
  Hypothesis op_assoc : forall x y z, op x (op y z) = op (op x y) z.
  Hypothesis op_e_l : forall x, op e x = x.
  Hypothesis op_e_r : forall x, op x e = x.
  Variable h : req -> M.
  Variable good : req -> Prop.

  Definition hl (l : list req) : M := fold_right (fun r acc => op (h r) acc) e l.
  Definition ho (o : option req) : M := match o with Some r => h r | None => e end.

  Lemma hl_app l1 l2 : hl (l1 ++ l2) = op (hl l1) (hl l2).
  Proof. unfold hl. induction l1 as [|r l1 IH]; cbn [app fold_right]; [now rewrite op_e_l|]. now rewrite IH, op_assoc. Qed.

  Lemma hl_one r : hl [r] = h r.
  Proof. cbn. apply op_e_r. Qed.

  Lemma hl_nil : hl [] = e.
  Proof. reflexivity. Qed.

  (* ---------------- queue *)
  Section Queue.
    Hypothesis h_cm : forall a b, good a -> good b -> h (copy_merge_v a b) = op (h a) (h b).
    Hypothesis good_cm : forall a b, good a -> good b -> good (copy_merge_v a b).

    Definition stored_good (q : pq) : Prop :=
      (forall c r, alookup c (pending q) = Some r -> good r) /\
      (forall c r, alookup c (processing q) = Some (Some r) -> good r).

    Definition ledger (l : qlog) : Prop :=
      forall c, op (hl (of_conn c (q_del l))) (hl (parked (q_st l) c)) = hl (of_conn c (q_acc l)).

    Definition op_good (o : qop) : Prop := match o with Enq _ r => good r | _ => True end.

    Lemma stored_good_step q o : stored_good q -> op_good o -> stored_good (fst (qstep q o)).
    Proof.
      intros [Hpe Hpr] Hg. destruct o as [c r| |c|]; cbn [qstep fst].
      - unfold enqueue. destruct (down q); [split; assumption|].
        destruct (alookup c (processing q)) as [cur|] eqn:E1.
        + split; cbn [pending processing]; [assumption|].
          intros c' r' H. destruct (N.eq_dec c c') as [->|Hne].
          * rewrite alookup_aset_same in H. injection H as H.
            destruct cur as [x|]; cbn in H; injection H as <-; [|exact Hg].
            apply good_cm; [|exact Hg]. eapply Hpr; eassumption.
          * rewrite alookup_aset_other in H by exact Hne. eapply Hpr; eassumption.
        + destruct (alookup c (pending q)) as [cur|] eqn:E2; split; cbn [pending processing]; try assumption.
          * intros c' r' H. destruct (N.eq_dec c c') as [->|Hne].
            -- rewrite alookup_aset_same in H. injection H as <-. apply good_cm; [|exact Hg]. eapply Hpe; eassumption.
            -- rewrite alookup_aset_other in H by exact Hne. eapply Hpe; eassumption.
          * intros c' r' H. destruct (N.eq_dec c c') as [->|Hne].
            -- rewrite alookup_aset_same in H. now injection H as <-.
            -- rewrite alookup_aset_other in H by exact Hne. eapply Hpe; eassumption.
      - unfold dequeue. destruct (queue q) as [|c rest]; cbn [fst]; [split; assumption|].
        split; cbn [pending processing].
        + intros c' r' H. destruct (N.eq_dec c c') as [->|Hne].
          * now rewrite alookup_aremove_same in H.
          * rewrite alookup_aremove_other in H by exact Hne. eapply Hpe; eassumption.
        + intros c' r' H. destruct (N.eq_dec c c') as [->|Hne].
          * rewrite alookup_aset_same in H. discriminate.
          * rewrite alookup_aset_other in H by exact Hne. eapply Hpr; eassumption.
      - unfold mark_done.
        assert (Hrest : forall c' r', alookup c' (aremove c (processing q)) = Some (Some r') -> good r').
        { intros c' r' H. destruct (N.eq_dec c c') as [->|Hne].
          - now rewrite alookup_aremove_same in H.
          - rewrite alookup_aremove_other in H by exact Hne. eapply Hpr; eassumption. }
        destruct (alookup c (processing q)) as [[r|]|] eqn:E; split; cbn [pending processing]; try assumption.
        intros c' r' H. destruct (N.eq_dec c c') as [->|Hne].
        + rewrite alookup_aset_same in H. injection H as <-. eapply Hpr; eassumption.
        + rewrite alookup_aset_other in H by exact Hne. eapply Hpe; eassumption.
      - split; cbn; assumption.
    Qed.

    Lemma parked_other q q' c' :
      alookup c' (pending q') = alookup c' (pending q) ->
      alookup c' (processing q') = alookup c' (processing q) ->
      parked q' c' = parked q c'.
    Proof. unfold parked. now intros -> ->. Qed.

    Lemma ledger_step l o :
      qinv (q_st l) -> stored_good (q_st l) -> op_good o -> ledger l -> ledger (qlog_step l o).
    Proof.
      intros (Hnd & Hq & Hp) [Gpe Gpr] Hg Hl c'. specialize (Hl c').
      unfold qlog_step. destruct o as [c r| |c|]; cbn [qstep].
      - (* Enqueue *)
        cbn [q_st q_acc q_del]. unfold enqueue. destruct (down (q_st l)) eqn:Ed; [exact Hl|].
        destruct (N.eq_dec c c') as [->|Hne].
        + rewrite of_conn_snoc_same, hl_app, hl_one, <- Hl.
          unfold parked in *.
          destruct (alookup c' (processing (q_st l))) as [cur|] eqn:E1; cbn [processing pending].
          * rewrite alookup_aset_same.
            destruct cur as [x|]; cbn [copy_merge_o].
            -- rewrite !hl_one, h_cm by (eauto). now rewrite op_assoc.
            -- assert (alookup c' (pending (q_st l)) = None) as -> by (apply Hp; congruence).
               now rewrite hl_one, hl_nil, op_e_r.
          * destruct (alookup c' (pending (q_st l))) as [cur|] eqn:E2; cbn [processing pending]; rewrite E1, alookup_aset_same.
            -- rewrite !hl_one, h_cm by (eauto). now rewrite op_assoc.
            -- now rewrite hl_one, hl_nil, op_e_r.
        + rewrite of_conn_snoc_other by congruence. rewrite <- Hl. f_equal. f_equal.
          apply parked_other.
          * destruct (alookup c (processing (q_st l))); cbn [pending]; [reflexivity|].
            destruct (alookup c (pending (q_st l))); cbn [pending]; now rewrite alookup_aset_other.
          * destruct (alookup c (processing (q_st l))); cbn [processing]; [now rewrite alookup_aset_other|].
            destruct (alookup c (pending (q_st l))); reflexivity.
      - (* Dequeue *)
        unfold dequeue. destruct (queue (q_st l)) as [|c rest] eqn:Eq.
        + cbn [q_st q_acc q_del]. destruct (down (q_st l)); exact Hl.
        + assert (Hin : In c (c :: rest)) by now left.
          destruct (alookup c (pending (q_st l))) as [r|] eqn:Epe; [|apply Hq in Hin; congruence].
          cbn [q_st q_acc q_del].
          assert (Hpr : alookup c (processing (q_st l)) = None).
          { destruct (alookup c (processing (q_st l))) eqn:E; [|reflexivity].
            assert (alookup c (pending (q_st l)) = None) by (apply Hp; congruence). congruence. }
          destruct (N.eq_dec c c') as [->|Hne].
          * rewrite of_conn_snoc_same, hl_app, hl_one, <- Hl.
            unfold parked; cbn [processing pending].
            rewrite alookup_aset_same, alookup_aremove_same, Hpr, Epe.
            now rewrite hl_one, hl_nil, op_e_r.
          * rewrite of_conn_snoc_other by congruence. rewrite <- Hl. f_equal.
            f_equal. apply parked_other; cbn [pending processing].
            -- now apply alookup_aremove_other.
            -- now apply alookup_aset_other.
      - (* MarkDone *)
        cbn [q_st q_acc q_del]. rewrite <- Hl. f_equal. f_equal.
        destruct (N.eq_dec c c') as [->|Hne].
        + unfold mark_done, parked.
          destruct (alookup c' (processing (q_st l))) as [[r|]|] eqn:E; cbn [pending processing];
            rewrite alookup_aremove_same; [now rewrite alookup_aset_same|reflexivity|reflexivity].
        + destruct (mark_done_isolation (q_st l) c c' Hne) as [H1 H2]. now apply parked_other.
      - (* ShutDown *)
        cbn [q_st q_acc q_del]. exact Hl.
    Qed.

    Lemma queue_ledger_gen ops : forall l,
      Forall op_good ops -> qinv (q_st l) /\ stored_good (q_st l) /\ ledger l ->
      let l' := fold_left qlog_step ops l in qinv (q_st l') /\ stored_good (q_st l') /\ ledger l'.
    Proof.
      induction ops as [|o ops IH]; intros l Hg Hb; cbn [fold_left]; [exact Hb|].
      inversion Hg; subst. apply IH; [assumption|].
      destruct Hb as (Hi & Hs & Hl). split; [|split].
      - rewrite qlog_step_st. now apply qinv_qstep.
      - rewrite qlog_step_st. now apply stored_good_step.
      - now apply ledger_step.
    Qed.

    Theorem queue_ledger ops :
      Forall op_good ops -> ledger (qrun ops).
    Proof.
      intros Hg. apply (queue_ledger_gen ops (mkQlog pq_empty [] []) Hg).
      split; [exact qinv_empty|]. split.
      - split; cbn; intros; discriminate.
      - intros c. cbn. now rewrite op_e_l.
    Qed.
  End Queue.

  (* ---------------- debounce *)
  Section Debounce.
    Hypothesis h_m : forall a b, h (merge_v a b) = op (h a) (h b).

    Lemma ho_merge_o x r : ho (merge_o x (Some r)) = op (ho x) (h r).
    Proof. destruct x; cbn; [apply h_m|now rewrite op_e_l]. Qed.

    Lemma push_worker_ledger ripe s s' outs :
      push_worker ripe s = (s', outs) -> op (hl (pushed outs)) (ho (d_req s')) = ho (d_req s).
    Proof.
      unfold push_worker. destruct ripe.
      - destruct (d_req s) as [r|] eqn:E; intros H; injection H as <- <-; cbn.
        + now rewrite !op_e_r.
        + rewrite E. cbn. now rewrite op_e_l.
      - intros H; injection H as <- <-; cbn. now rewrite op_e_l.
    Qed.

    Lemma dstep_ledger o s i s' outs :
      dstep o s i = (s', outs) ->
      op (hl (pushed outs)) (ho (d_req s')) = op (ho (d_req s)) (hl (debounced_inputs o [i])).
    Proof.
      destruct i as [r0|ripe|ripe]; cbn [dstep debounced_inputs].
      - destruct (negb (eds_debounce o) && eds_only o (fix_reason r0)); intros H; injection H as <- <-; cbn.
        + now rewrite op_e_l, op_e_r.
        + rewrite op_e_l, op_e_r. apply ho_merge_o.
      - destruct (d_timer s).
        + destruct (d_free s).
          * intros H. apply push_worker_ledger in H. cbn in *. now rewrite op_e_r.
          * intros H; injection H as <- <-; cbn. now rewrite op_e_l, op_e_r.
        + intros H; injection H as <- <-; cbn. now rewrite op_e_l, op_e_r.
      - destruct (d_inflight s).
        + intros H. apply push_worker_ledger in H. cbn in *. now rewrite op_e_r.
        + intros H; injection H as <- <-; cbn. now rewrite op_e_l, op_e_r.
    Qed.

    Lemma pushed_app a b : pushed (a ++ b) = pushed a ++ pushed b.
    Proof. induction a as [|[r n|r] a IH]; cbn; [reflexivity| |]; now rewrite ?IH. Qed.

    Lemma debounced_inputs_cons o i is : debounced_inputs o (i :: is) = debounced_inputs o [i] ++ debounced_inputs o is.
    Proof.
      destruct i; cbn; try reflexivity.
      destruct (negb (eds_debounce o) && eds_only o (fix_reason r)); reflexivity.
    Qed.

    Theorem debounce_ledger o : forall is s s' outs,
      drun o s is = (s', outs) ->
      op (hl (pushed outs)) (ho (d_req s')) = op (ho (d_req s)) (hl (debounced_inputs o is)).
    Proof.
      induction is as [|i is IH]; intros s s' outs; cbn [drun].
      - intros H; injection H as <- <-. cbn. now rewrite op_e_l, op_e_r.
      - destruct (dstep o s i) as [s1 o1] eqn:E1. destruct (drun o s1 is) as [s2 o2] eqn:E2.
        intros H; injection H as <- <-.
        rewrite pushed_app, hl_app, debounced_inputs_cons, hl_app.
        rewrite <- op_assoc, (IH _ _ _ E2), op_assoc, (dstep_ledger _ _ _ _ _ E1).
        now rewrite op_assoc.
    Qed.
  End Debounce.
End Ledger.

(* ------------------------------------------------------------------ instances *)

(* keys, forced flag and newest snapshot *)
Record summ := mkSumm { m_cfg : N; m_addr : N; m_wp : N; m_forced : bool; m_push : option N }.
Definition sop (x y : summ) : summ :=
  mkSumm (N.lor (m_cfg x) (m_cfg y)) (N.lor (m_addr x) (m_addr y)) (N.lor (m_wp x) (m_wp y))
         (m_forced x || m_forced y) (newest (m_push x) (m_push y)).
Definition se : summ := mkSumm 0 0 0 false None.
Definition sum1 (r : req) : summ := mkSumm (bits (cfg r)) (bits (addr r)) (bits (wp r)) (forced r) (push r).
(* the same without the snapshot *)
Definition sum0 (r : req) : summ := mkSumm (bits (cfg r)) (bits (addr r)) (bits (wp r)) (forced r) None.

Lemma newest_assoc a b c : newest a (newest b c) = newest (newest a b) c.
Proof. destruct c; reflexivity. Qed.

Lemma sop_assoc x y z : sop x (sop y z) = sop (sop x y) z.
Proof. unfold sop; cbn. now rewrite !N.lor_assoc, orb_assoc, newest_assoc. Qed.
Lemma sop_e_l x : sop se x = x.
Proof. destruct x as [a b c d p]; unfold sop; cbn. destruct p; reflexivity. Qed.
Lemma sop_e_r x : sop x se = x.
Proof. destruct x; unfold sop; cbn. now rewrite !N.lor_0_r, orb_false_r. Qed.

Lemma sum1_merge a b : sum1 (merge_v a b) = sop (sum1 a) (sum1 b).
Proof. unfold sum1, sop; cbn. now rewrite !bits_set_merge. Qed.
Lemma sum0_merge a b : sum0 (merge_v a b) = sop (sum0 a) (sum0 b).
Proof. unfold sum0, sop; cbn. now rewrite !bits_set_merge. Qed.
Lemma sum0_cm a b : sum0 (copy_merge_v a b) = sop (sum0 a) (sum0 b).
Proof. unfold sum0, sop; cbn. now rewrite bits_cfg_cm, !bits_len_cm. Qed.
Lemma sum1_cm a b : sum1 (copy_merge_v a b) = sop (sum1 a) (sum1 b).
Proof. unfold sum1, sop; cbn. now rewrite bits_cfg_cm, !bits_len_cm. Qed.

(* link with the Spec vocabulary *)
Lemma hl_sum1_proj l :
  m_cfg (hl summ sop se sum1 l) = ucfg l /\ m_addr (hl summ sop se sum1 l) = uaddr l /\
  m_wp (hl summ sop se sum1 l) = uwp l /\ m_forced (hl summ sop se sum1 l) = anyforced l.
Proof.
  induction l as [|r l IH]; [cbn; auto|].
  change (hl summ sop se sum1 (r :: l)) with (sop (sum1 r) (hl summ sop se sum1 l)).
  destruct IH as (A & B & C & D). cbn [sop m_cfg m_addr m_wp m_forced sum1]. rewrite A, B, C, D. auto.
Qed.

Lemma hl_sum0 l : hl summ sop se sum0 l = mkSumm (ucfg l) (uaddr l) (uwp l) (anyforced l) None.
Proof.
  induction l as [|r l IH]; [reflexivity|].
  change (hl summ sop se sum0 (r :: l)) with (sop (sum0 r) (hl summ sop se sum0 l)). rewrite IH. reflexivity.
Qed.

Lemma lastpush_fold l : forall acc,
  fold_left (fun acc r => newest acc (push r)) l acc = newest acc (m_push (hl summ sop se sum1 l)).
Proof.
  induction l as [|r l IH]; intros acc.
  - cbn. destruct acc; reflexivity.
  - change (hl summ sop se sum1 (r :: l)) with (sop (sum1 r) (hl summ sop se sum1 l)).
    cbn [fold_left]. rewrite IH. cbn [sop sum1 m_push]. apply eq_sym, newest_assoc.
Qed.

Lemma lastpush_hl l : lastpush l = m_push (hl summ sop se sum1 l).
Proof. unfold lastpush. rewrite lastpush_fold. cbn. now destruct (m_push _). Qed.

Lemma rc_hl k l : rc k l = hl N N.add 0 (fun r => rcount k (rget (reason r))) l.
Proof. reflexivity. Qed.

Lemma Nadd_assoc x y z : x + (y + z) = x + y + z. Proof. lia. Qed.

(* ---- queue: nothing accepted for c is lost, nothing is invented, whatever the op sequence ---- *)

Definition carried (l : list req) := (ucfg l, uaddr l, uwp l, anyforced l).

Lemma carried_of_sum0 l1 l2 l3 :
  sop (hl summ sop se sum0 l1) (hl summ sop se sum0 l2) = hl summ sop se sum0 l3 ->
  carried (l1 ++ l2) = carried l3.
Proof.
  intros H. rewrite <- (hl_app summ sop se sop_assoc sop_e_l) in H.
  rewrite !hl_sum0 in H. unfold carried. now injection H as -> -> -> ->.
Qed.

Theorem queue_no_loss ops c :
  let l := qrun ops in
  let out := of_conn c (q_del l) ++ parked (q_st l) c in
  let inp := of_conn c (q_acc l) in
  ucfg out = ucfg inp /\ uaddr out = uaddr inp /\ uwp out = uwp inp /\ anyforced out = anyforced inp /\
  (forall k, rc k out = rc k inp).
Proof.
  cbn zeta.
  assert (Hall : Forall (fun o : qop => match o with Enq _ _ => True | _ => True end) ops).
  { apply Forall_forall. intros []; auto. }
  pose proof (queue_ledger summ sop se sop_assoc sop_e_l sop_e_r sum0 (fun _ => True)
                (fun a b _ _ => sum0_cm a b) (fun _ _ _ _ => I) ops Hall c) as H0.
  apply carried_of_sum0 in H0. unfold carried in H0. injection H0 as -> -> -> ->.
  repeat split; try reflexivity.
  intros k.
  pose proof (queue_ledger N N.add 0 Nadd_assoc N.add_0_l N.add_0_r
                (fun r => rcount k (rget (reason r))) (fun _ => True)
                (fun a b _ _ => rcount_reason_cm k (reason a) (reason b)) (fun _ _ _ _ => I) ops Hall c) as Hk.
  rewrite !rc_hl, hl_app; [exact Hk|exact Nadd_assoc|exact N.add_0_l].
Qed.

(* newest snapshot through the queue, at full strength *)
Theorem queue_newest ops c :
  let l := qrun ops in
  lastpush (of_conn c (q_del l) ++ parked (q_st l) c) = lastpush (of_conn c (q_acc l)).
Proof.
  cbn zeta.
  assert (Hall : Forall (fun o : qop => match o with Enq _ _ => True | _ => True end) ops).
  { apply Forall_forall. intros []; auto. }
  pose proof (queue_ledger summ sop se sop_assoc sop_e_l sop_e_r sum1 (fun _ => True)
                (fun a b _ _ => sum1_cm a b) (fun _ _ _ _ => I) ops Hall c) as H.
  rewrite !lastpush_hl, (hl_app summ sop se sop_assoc sop_e_l). now rewrite H.
Qed.

(* ---- debounce: what was pushed plus what is still held is exactly what was received ---- *)

Theorem debounce_covers o is :
  let '(s, outs) := drun o dst_init is in
  let out := pushed outs ++ match d_req s with Some r => [r] | None => [] end in
  let inp := debounced_inputs o is in
  ucfg out = ucfg inp /\ uaddr out = uaddr inp /\ uwp out = uwp inp /\ anyforced out = anyforced inp /\
  lastpush out = lastpush inp /\ (forall k, rc k out = rc k inp).
Proof.
  destruct (drun o dst_init is) as [s outs] eqn:E. cbn zeta.
  pose proof (debounce_ledger summ sop se sop_assoc sop_e_l sop_e_r sum1 sum1_merge o is _ _ _ E) as H.
  cbn [dst_init d_req ho] in H. rewrite sop_e_l in H.
  assert (Hout : hl summ sop se sum1 (pushed outs ++ match d_req s with Some r => [r] | None => [] end) =
                 hl summ sop se sum1 (debounced_inputs o is)).
  { rewrite (hl_app summ sop se sop_assoc sop_e_l), <- H. f_equal.
    destruct (d_req s); cbn; [apply sop_e_r|reflexivity]. }
  rewrite !lastpush_hl, Hout.
  destruct (hl_sum1_proj (pushed outs ++ match d_req s with Some r => [r] | None => [] end)) as (A1 & B1 & C1 & D1).
  destruct (hl_sum1_proj (debounced_inputs o is)) as (A2 & B2 & C2 & D2).
  rewrite <- A1, <- B1, <- C1, <- D1, <- A2, <- B2, <- C2, <- D2, Hout.
  repeat split; try reflexivity.
  intros k.
  pose proof (debounce_ledger N N.add 0 Nadd_assoc N.add_0_l N.add_0_r
                (fun r => rcount k (rget (reason r)))
                (fun a b => rcount_reason_merge k (reason a) (reason b)) o is _ _ _ E) as Hk.
  cbn [dst_init d_req ho] in Hk. rewrite N.add_0_l in Hk.
  rewrite !rc_hl, hl_app; [|exact Nadd_assoc|exact N.add_0_l]. rewrite <- Hk. f_equal.
  destruct (d_req s); cbn; lia.
Qed.

(* ---- debounce: one push at a time, every event counted, never stuck ---- *)

Definition dinv (s : dst) : Prop :=
  (d_free s = true <-> d_inflight s = None) /\
  (d_events s = 0 <-> d_req s = None) /\
  (d_req s <> None -> d_free s = true -> d_timer s = true).

Lemma dinv_init : dinv dst_init.
Proof. repeat split; cbn; auto; try discriminate; congruence. Qed.

Lemma dinv_push_worker ripe s s' outs :
  d_free s = true -> d_inflight s = None -> (d_events s = 0 <-> d_req s = None) ->
  push_worker ripe s = (s', outs) -> dinv s'.
Proof.
  intros Hf Hi He. unfold push_worker, dinv. destruct ripe.
  - destruct (d_req s) eqn:Er; intros H; injection H as <- <-; cbn [d_free d_inflight d_events d_req d_timer].
    + split; [split; discriminate|]. split; [tauto|]. congruence.
    + rewrite Er, Hf, Hi. split; [tauto|]. split; [exact He|]. congruence.
  - intros H; injection H as <- <-; cbn [d_free d_inflight d_events d_req d_timer].
    rewrite Hf, Hi. split; [tauto|]. split; [exact He|]. auto.
Qed.

Lemma dinv_step o s i s' outs : dinv s -> dstep o s i = (s', outs) -> dinv s'.
Proof.
  intros (Hf & He & Ht). destruct i as [r0|ripe|ripe]; cbn [dstep].
  - destruct (negb (eds_debounce o) && eds_only o (fix_reason r0)); intros H; injection H as <- <-;
      unfold dinv; cbn [d_free d_inflight d_events d_req d_timer].
    + exact (conj Hf (conj He Ht)).
    + split; [exact Hf|]. split.
      * split; [intros H; lia|]. intros H. destruct (d_req s); discriminate.
      * intros _ Hfree. destruct (N.eqb_spec (d_events s) 0) as [E|E]; [reflexivity|].
        apply Ht; [|exact Hfree]. intros Hn. apply E, He, Hn.
  - destruct (d_timer s) eqn:Etm.
    + destruct (d_free s) eqn:Efr.
      * intros H. eapply dinv_push_worker in H; cbn [d_free d_inflight d_events d_req]; auto. now apply Hf.
      * intros H; injection H as <- <-. unfold dinv; cbn [d_free d_inflight d_events d_req d_timer].
        split; [|split; [exact He|discriminate]].
        split; [discriminate|]. intros H. apply Hf in H. congruence.
    + intros H; injection H as <- <-. unfold dinv. rewrite Etm. exact (conj Hf (conj He Ht)).
  - destruct (d_inflight s) eqn:Ei.
    + intros H. eapply dinv_push_worker in H; cbn [d_free d_inflight d_events d_req]; auto.
    + intros H; injection H as <- <-. unfold dinv. rewrite Ei. exact (conj Hf (conj He Ht)).
Qed.

Lemma dinv_run o : forall is s s' outs, dinv s -> drun o s is = (s', outs) -> dinv s'.
Proof.
  induction is as [|i is IH]; intros s s' outs Hi; cbn [drun].
  - intros H; injection H as <- _. exact Hi.
  - destruct (dstep o s i) as [s1 o1] eqn:E1. destruct (drun o s1 is) as [s2 o2] eqn:E2.
    intros H; injection H as <- _. eapply IH; [|exact E2]. eapply dinv_step; eassumption.
Qed.

(* a debounced push starts only when no other is running, and then it is the one in flight *)
Lemma dstep_no_overlap o s i s' outs r n :
  dinv s -> dstep o s i = (s', outs) -> In (Push r n) outs ->
  outs = [Push r n] /\ d_inflight s' = Some n /\ d_req s = Some r /\ d_events s = n /\
  (d_inflight s = None \/ exists ripe, i = PushDone ripe).
Proof.
  intros (Hf & He & Ht).
  assert (PW : forall ripe s0 s1 o1, push_worker ripe s0 = (s1, o1) -> In (Push r n) o1 ->
               o1 = [Push r n] /\ d_inflight s1 = Some n /\ d_req s0 = Some r /\ d_events s0 = n).
  { intros ripe s0 s1 o1. unfold push_worker. destruct ripe.
    - destruct (d_req s0); intros H; injection H as <- <-; cbn; [|tauto].
      intros [H|[]]. injection H as <- <-. auto.
    - intros H; injection H as <- <-. cbn. tauto. }
  destruct i as [r0|ripe|ripe]; cbn [dstep].
  - destruct (negb (eds_debounce o) && eds_only o (fix_reason r0)); intros H; injection H as <- <-; cbn.
    + intros [H|[]]. discriminate.
    + tauto.
  - destruct (d_timer s); [|intros H; injection H as <- <-; cbn; tauto].
    destruct (d_free s) eqn:Efr; [|intros H; injection H as <- <-; cbn; tauto].
    intros H Hin. destruct (PW _ _ _ _ H Hin) as (A & B & C & D). cbn in C, D.
    repeat split; auto. left. now apply Hf.
  - destruct (d_inflight s); [|intros H; injection H as <- <-; cbn; tauto].
    intros H Hin. destruct (PW _ _ _ _ H Hin) as (A & B & C & D). cbn in C, D.
    repeat split; auto. right. now exists ripe.
Qed.

(* every received event is counted exactly once: committed + in flight + held = received *)
Fixpoint received (is : list din) : N :=
  match is with [] => 0 | Recv _ :: t => 1 + received t | _ :: t => received t end.

Definition dcount (s : dst) : N :=
  d_committed s + match d_inflight s with Some n => n | None => 0 end + d_events s.

Lemma dcount_step o s i s' outs : dinv s -> dstep o s i = (s', outs) -> dcount s' = dcount s + received [i].
Proof.
  intros (Hf & He & Ht).
  assert (PW : forall ripe s0 s1 o1, d_inflight s0 = None -> push_worker ripe s0 = (s1, o1) -> dcount s1 = dcount s0).
  { intros ripe s0 s1 o1 Hi. unfold push_worker, dcount. destruct ripe.
    - destruct (d_req s0); intros H; injection H as <- _; cbn; rewrite ?Hi; lia.
    - intros H; injection H as <- _; cbn. lia. }
  destruct i as [r0|ripe|ripe]; cbn [dstep received].
  - destruct (negb (eds_debounce o) && eds_only o (fix_reason r0)); intros H; injection H as <- _;
      unfold dcount; cbn; lia.
  - destruct (d_timer s); [|intros H; injection H as <- _; lia].
    destruct (d_free s) eqn:Efr; [|intros H; injection H as <- _; unfold dcount; cbn; lia].
    intros H. apply PW in H; [|cbn; now apply Hf]. rewrite H. unfold dcount; cbn. lia.
  - destruct (d_inflight s) eqn:Ei; [|intros H; injection H as <- _; lia].
    intros H. apply PW in H; [|reflexivity]. rewrite H. unfold dcount; cbn. rewrite Ei. lia.
Qed.

Lemma received_cons i is : received (i :: is) = received [i] + received is.
Proof. destruct i; cbn [received]; lia. Qed.

Theorem debounce_committed o : forall is s s' outs,
  dinv s -> drun o s is = (s', outs) -> dcount s' = dcount s + received is.
Proof.
  induction is as [|i is IH]; intros s s' outs Hi; cbn [drun].
  - intros H; injection H as <- _. cbn. lia.
  - destruct (dstep o s i) as [s1 o1] eqn:E1. destruct (drun o s1 is) as [s2 o2] eqn:E2.
    intros H; injection H as <- _.
    rewrite (IH _ _ _ (dinv_step _ _ _ _ _ Hi E1) E2), (dcount_step _ _ _ _ _ Hi E1), (received_cons i is). lia.
Qed.

(* progress: whatever the state, "the running push finishes, then the timer fires ripe" leaves nothing held *)
Theorem debounce_flush o s :
  dinv s -> d_req (fst (drun o s [PushDone true; Tick true])) = None.
Proof.
  intros (Hf & He & Ht). destruct s as [rq ev fr tm inf cm].
  cbn [d_free d_inflight d_events d_req d_timer] in *.
  destruct inf as [n|]; destruct rq as [r|]; destruct tm; destruct fr; cbn; try reflexivity; exfalso.
  all: try (assert (X : false = true) by (apply Hf; reflexivity); discriminate X).
  all: try (assert (X : false = true) by (apply Ht; [discriminate|reflexivity]); discriminate X).
Qed.
